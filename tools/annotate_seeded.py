#!/usr/bin/env python3
"""Copies the evaluation outcome of seeded changes from seeded/RESULTS.json into their meta.json
("what_i_ran", "check_results").  Usage: annotate_seeded.py <id>..."""
import json
import sys

r = json.load(open("/verif/seeded/RESULTS.json"))
for i in sys.argv[1:]:
    p = "/verif/seeded/%s/meta.json" % i
    m = json.load(open(p))
    wt = "the sub-agent's own scratch worktree under /tmp (CONFIRM_WT), reusing its build output"
    m["what_i_ran"] = {
        "confirm": "tools/confirm_seeded.py %s (%s): patch applies; cargo test --workspace --no-fail-fast --offline passes (152); "
                   "demonstration passes without and fails with the patch" % (i, wt),
        "evaluate": "tools/eval_seeded.py %s : git -C /repo apply patch.diff; ./check <property> --tier quick; git -C /repo checkout -- ." % i,
    }
    m["check_results"] = {c: {"result": v["result"], "signatures": v.get("signatures", [])}
                          for c, v in r.get(i, {}).get("quick", {}).items() if isinstance(v, dict)}
    json.dump(m, open(p, "w"), indent=1, ensure_ascii=False)
    print(i, {c: v["result"] for c, v in m["check_results"].items()})
