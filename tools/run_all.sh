#!/bin/bash
# Runs every check of MANIFEST.json (quick by default) on the current tree and prints one line per check.
tier=${1:-quick}; shift
cd /verif
for id in $(python3 -c "import json; print(' '.join(c['property_id'] for c in json.load(open('MANIFEST.json'))['checks']))"); do
  start=$(date +%s)
  out=$(./check $id --tier $tier "$@" 2>&1); rc=$?
  echo "$id exit=$rc $(( $(date +%s) - start ))s | $(echo "$out" | tail -1 | cut -c1-160)"
  echo "$out" | grep -E "^(VIOLATION|KNOWN-FINDING)" | cut -c1-200
done
