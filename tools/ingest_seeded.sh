#!/bin/bash
# ingest_seeded.sh <prop> <suffix> <worktree>: copies a sub-agent's MUTANT/ directory to /verif/seeded/<prop>_<suffix>/
# (patch.diff, demonstration, meta.json) (the worktree is removed by the caller after confirm_seeded.py has reused its build output).
set -e
p=$1; s=$2; wt=$3
d=/verif/seeded/${p}_${s}
test -f $wt/MUTANT/patch.diff && test -f $wt/MUTANT/meta.json
mkdir -p $d
cp $wt/MUTANT/* $d/
python3 -c "import json;json.load(open('$d/meta.json'))"
echo "ingested $d: $(ls $d | tr '\n' ' ')"
