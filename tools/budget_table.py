#!/usr/bin/env python3
"""Prints the markdown table of measured run sizes (DESIGN.md section 6) from logs/runs.jsonl:
the latest violation-free run of every (property, tier)."""
import json
rows = {}
for l in open("/verif/logs/runs.jsonl"):
    d = json.loads(l)
    if d["violations"] == 0:
        rows[(d["property"], d["tier"])] = d
man = {c["property_id"]: c for c in json.load(open("/verif/MANIFEST.json"))["checks"]}
print("| id | level claimed | quick: evaluations / distinct non-trivial / wall | thorough: evaluations / distinct non-trivial / wall |")
print("|---|---|---|---|")
for i in range(1, 21):
    p = "C%02d" % i
    def cell(t):
        r = rows.get((p, t))
        return "%d / %d / %.0f s" % (r["evaluations"], r["distinct"], r["wall_s"]) if r else "-"
    print("| %s | %s | %s | %s |" % (p, man[p]["level_claimed"]["category"], cell("quick"), cell("thorough")))
