#!/usr/bin/env python3
"""Regenerates /verif/MANIFEST.json from the table below (kept here so the manifest is
always valid and complete: every property is either claimed or listed not_applicable)."""
import json
import os

HERE = os.path.dirname(os.path.dirname(os.path.abspath(__file__)))

CHECKS = {
    "C01": dict(
        category="exploration", design_ref="DESIGN.md §2 C01",
        technique="runtime reference-model monitor: replies of the real evaluator vs independent exact (Fraction) evaluation of the re-parsed query text",
        text="Every generated pure-number query (bounded-exhaustive small texts over a boundary alphabet plus seeded random trees with operands up to 4096 bits) is evaluated by the real library and judged against an independent exact evaluator; undefined results must be errors. Holds on the executions produced, not beyond.",
        note="Trusts Python int/Fraction, the reference grammar as calibrated in DESIGN.md, and the probe's faithful transcription of raw_value; exponents/shift counts limited to |n|<=64 and results to 2^16 bits."),
    "C02": dict(
        category="exploration", design_ref="DESIGN.md §2 C02",
        technique="runtime reference-model monitor: dimensionality of every numeric reply vs an independent exponent-vector algebra over the re-parsed query; zero-exponent scan of every reply",
        text="Random expression trees over all operators and the 20 functions with leaves drawn round-robin from every database unit (random prefixes, plurals, coefficients, powers incl. 0), quoted ad-hoc base units and numbers; the reply must carry exactly the algebra's dimensionality, must be an error where the algebra refuses, and may never mention a base unit with exponent zero.",
        note="exp/ln/log/hyperbolic functions of dimensioned arguments are unspecified by the statement (reference abstains); where an error-gating value is a float either outcome is accepted."),
    "C03": dict(
        category="exploration", design_ref="DESIGN.md §2 C03",
        technique="runtime reference-model monitor: conversion replies of the real evaluator vs exact values from the dumped unit table; conformance-error suggestions checked by following them with an independent dimension algebra",
        text="Thorough enumerates every ordered pair of conformable database units (about 5.6e5) plus mismatching and reciprocal pairs, prefixed/plural names and random compound sources/targets with constants and inline definitions; each reply must be the exact ratio (and convert back to 1), the number as printed times the target as stated must be the source value, or it must be a conformance error whose suggestion makes the sides conformable; tokens after a complete target must be refused. Quick covers every class and every unit with sampled partners.",
        note="Unit values come from the loaded database (C08); conversions through a float-valued unit or a root are judged to a relative 1e-9; names that are timezone names or conversion keywords are skipped as targets."),
    "C04": dict(
        category="exploration", design_ref="DESIGN.md §2 C04",
        technique="runtime event monitor: hostile inputs driven through the real lexer/parser/evaluator/renderers on long-lived contexts under a panic hook, overflow checks and per-request watchdogs; process-level observation of the release `rink -f -` binary",
        text="Six generators: search-space commands (factorize / units for over unit products with exponents up to +-12, also built up through ans), a grid of special values (NaN, infinities, zeros, boundary integers and exponents, dates, substances, the previous answer) in every operator/command context, grammar-directed queries with boundary integers in every numeric position, token soup, mutations of a corpus from the manual and tests, and raw Unicode incl. nesting stress, in histories of 200 on long-lived contexts with text, span-tree and JSON rendering and a health query after each history; any panic (by site), process death, or watchdog expiry on a cheap input is a violation. Holds for the inputs generated, not for all strings.",
        note="Cheap/expensive is a conservative lexical rule (stated in the evidence); expensive inputs that exceed the watchdog are inconclusive; the probe profile (opt-level 1, overflow checks on) differs from the release profile, which is exercised by the CLI slice."),
    "C05": dict(
        category="exploration", design_ref="DESIGN.md §2 C05",
        technique="runtime monitor: independent numeral reader re-reads every printed numeral (Numeric::to_string and query replies) and compares with the exact rational",
        text="Boundary families and random rationals x bases 2..36 x all digits modes are printed by the real code and re-read by an independent reader: exact numerals must equal p/q, approximate ones must be truncations within one last-digit unit, approx. markers and stated periods must be consistent.",
        note="Trusts the numeral reader (fraction forms are decimal; any reading accepted in bases >= 15 where 'e' is a digit); digit counts <= 1000."),
    "C06": dict(
        category="exploration", design_ref="DESIGN.md §2 C06",
        technique="runtime monitor over recorded replies: numerals re-read by the independent reader, printed unit names resolved by the name-resolution model, product compared with the exact quantity, from both the structured parts and the rendered token stream",
        text="Every database unit x magnitudes 1e-30..1e30 x {0.999, 1, 1000/999} x powers 1..3 (thorough: complete), every unit's definition reply, base-unit products around every derived-unit regrouping, conversions with constant factors and compound targets (constants under powers and roots, sums, mod / bit operators), number-format conversions of values with units, unit lists and durations, `k substance` and `<amount> substance` replies: printed numeral x factor x unit must equal the quantity exactly (exact numerals) or within one last-digit unit (approximate / list numerals), and the dimensionality and quantity shown must be those of the result.",
        note="Unit names are resolved by the Python model that C07 validates against rink; temperature pseudo-units belong to C10; pure-constant targets print no unit and are not generated."),
    "C07": dict(
        category="exploration", design_ref="DESIGN.md §2 C07",
        technique="runtime monitor: exhaustive sweep of prefix+unit[+s] names through the real lookup/canonicalize against an independent model of the exact/prefix/plural rule",
        text="All ~5.5e5 strings prefix+unit[+s] of the bundled database, and all such strings of generated databases with colliding names, are resolved by the real code and by a Python model; canonical names must denote the same value; a second lookup must agree.",
        note="Unit values and stored prefix order are taken from the loaded database (judged by C08/C12); exhaustive only over the bundled name space."),
    "C08": dict(
        category="exploration", design_ref="DESIGN.md §2 C08",
        technique="runtime invariant monitor over the loaded registry: every stored definition re-evaluated by the real evaluator in its own context and by an independent evaluator; structural invariants; repeated loads compared byte for byte",
        text="Exhaustive over every entry of the bundled database and of the bundled+currency-snapshot overlay: clean load (no error, no printed diagnostic), stored value = own definition, dimensionalities made of base units, quantity/dimensionality bijection, alias chains, doc/category ownership, identical dumps across reloads.",
        note="The currency overlay is the repository's snapshot file, not live data; the Python second opinion abstains on float-valued and substance-valued definitions."),
    "C09": dict(
        category="exploration", design_ref="DESIGN.md §2 C09",
        technique="runtime monitor over recorded replies: parts read from exact raw values, the four decomposition laws recomputed in exact arithmetic from the dumped unit values",
        text="Seeded unit lists of 2..6 conformable units from every dimensionality class (descending/ascending/repeated/random order, both separators) with zero/tiny/huge/random/near-multiple values of both signs, and time values through the automatic year..second breakdown; exact sum, integral non-final parts, common sign and bounded remainders are checked, and non-conformable lists/values must be refused; lists written in prefixed/plural spellings have their printed parts read back, lists with a float-valued unit are judged to 1e-9, lists with a negative-valued unit must be refused or keep the sign law.",
        note="Known finding: parts rescaled with an SI prefix glued onto the list's spelling can carry names rink cannot read (pinned by an existing test); printed per-entry numerals of database-name lists are judged by C06."),
    "C10": dict(
        category="exploration", design_ref="DESIGN.md §2 C10",
        technique="runtime reference-model monitor: textbook affine maps in exact arithmetic vs the real evaluator, per spelling; chains fed by exact replies",
        text="All 36 ordered scale pairs x all 26x26 spelling pairs systematically, plus seeded random (x, pair, spelling) triples with x from absolute zero, 10^+-30, 60-digit decimals and random rationals: operator value, conversion value, A->A identity and chains of 2..6 conversions must agree exactly with the textbook formulas; dimensioned operands, compound targets and non-temperature sources must be refused.",
        note="The textbook constants are the oracle's; holds for the x values generated, not for all rationals."),
    "C11": dict(
        category="exploration", design_ref="DESIGN.md §2 C11",
        technique="runtime round-trip monitor: trees produced by the real parser are printed by the real Display / ExprReply / ExprString-serde paths, re-parsed by the real parser and compared structurally",
        text="Bounded-exhaustive: every node kind over every leaf kind, every (parent, child kinds) combination and every (grandparent, parent, child) chain in every operand position, plus seeded random deeper trees and every bundled definition and substance property through the DefEntry JSON round trip; the re-parsed tree must be identical and no tokens may be left over.",
        note="ExprReply token lists are joined with single spaces; literals that print inexactly, dates and error nodes are excluded as the statement says; depth beyond 3 is sampled, not enumerated."),
    "C12": dict(
        category="exploration", design_ref="DESIGN.md §2 C12",
        technique="runtime history-invariant monitor: the same definition multiset loaded by the real loader in many orders and file splits; canonical registry dumps compared byte for byte",
        text="Entry-level permutations of the parsed bundled file (identity, reversal, dependency-reversed, rotations, seeded shuffles), text-level pieces parsed as separate files in shuffled order, and generated databases (deep/wide/diamond dependency graphs, ambiguous prefix splits, long-name references, doc comments) shuffled and split into 1..3 files at text level must all load without error into byte-identical databases (prefix order included).",
        note="Only uniquely named definitions are permuted (duplicates keep relative order, last-wins by design); explores sampled permutations, not all n!."),
    "C13": dict(
        category="exploration", design_ref="DESIGN.md §2 C13",
        technique="runtime event + invariant monitor: hostile definition files, currency JSON and date-pattern files loaded by the real loader under a panic hook and watchdogs; dropped entries matched against reported messages; follow-up queries on the partially loaded context",
        text="Mutants of the bundled files (line/token deletion, duplication, swapping, truncation, CRLF), damaged currency JSON, grammar-directed random files (prefix and quantity power arithmetic with zero bases and boundary exponents, zero/negative/mismatched substance properties, molar masses of any dimensionality with symbols and formulas, unknown pragmas), valid files with nested prefixes that must load cleanly, two-file loads closing alias loops, dependency cycles through units, prefixes, quantities and substance properties of length 1..5000 and chains to 5000, random date-pattern files: no panic, abort or hang; cycles reported; every dropped entry mentioned in a message; the context still answers queries about loaded and broken names.",
        note="Depth bound claimed: 5000 definitions per chain/cycle on an 8 MiB stack; an entry counts as reported when a message mentions its name."),
    "C14": dict(
        category="exploration", design_ref="DESIGN.md §2 C14",
        technique="runtime reference-model monitor: literals rendered from chosen instants per documented pattern; instants recovered from replies and compared with an independent proleptic-Gregorian integer-nanosecond calendar",
        text="Instants over years 0001-9999 rendered into every documented literal form (with optional seconds, 1-9 fractional digits, fixed offsets) x whole-nanosecond durations from 1 ns to ~9500 years written in 16 time units with both signs: the literal's instant, (d+t)-d = t, (d-t)+t = d, d1-d2, fixed-offset and named-zone conversions keeping the instant, and refusal of offsets of 24 h or more; literals that describe no instant (impossible day, minute 60, offset >= 24 h) must be refused, second 60 refused or consistent, time-only literals in named zones on daylight-saving days (pinned clock) must not panic, duration minus date must be refused, the rfc3339 field must name the instant for zones with second-valued offsets.",
        note="Clock pinned; named zones (in literals and as targets) judged with the system tz database for instants from 1972 on; ISO-week and year-less patterns are not generated; the sandbox's local zone is UTC."),
    "C16": dict(
        category="exploration", design_ref="DESIGN.md §2 C16",
        technique="runtime reference-model monitor: substance property queries of the real evaluator vs exact arithmetic over the dumped property table; displayed parts re-read with the C05/C06 reader",
        text="Exhaustive over all substances with unit amount and all their properties: by-name lookup under dimensionless multiples (k S, S*k, S/k), output of an amount given in the input's dimensionality, the inverse query, refusal (conformance error) of amounts of another dimensionality, of the asked side's own dimensionality and of plain numbers, zero amounts, scaling of every property in replies to k S, the plain reply to `<amount> S` and `S -> k unit` conversions read back as printed; chemical formulas over the element symbols with counts up to 2^32-1 against the exact count-weighted sum, and near-miss strings (unknown symbols, lower case, counts of zero or with leading zeros, 2^32) that must not be treated as formulas.",
        note="Ambiguously named properties are skipped as the statement allows; substances shadowed by unit names (C07 rule) and derived substances with their own amount (lusec) are skipped."),
    "C17": dict(
        category="exploration", design_ref="DESIGN.md §2 C17",
        technique="runtime monitor: `units for` replies compared as sets with the registry dump, `factorize` replies multiplied out with an independent dimension algebra, three spellings of every dimensionality compared with each other",
        text="Exhaustive over every named quantity and every dimensionality occurring in the database, each written as quantity name, as a unit and as a base-unit product, plus random base-unit products with exponents -3..3 and 25..1000 (beyond factorize's 50-factor limit): no unit of another dimensionality, no missing non-alias unit, no duplicates, own categories, factorizations that multiply out to X without duplicates, identical answers for all spellings.",
        note="A factorize request exceeding its watchdog twice is inconclusive here; the alias notion (definition is a bare name) is the registry's."),
    "C15": dict(
        category="exploration", design_ref="DESIGN.md §2 C15",
        technique="runtime history monitor: long-lived contexts vs fresh-context replay under a sequential model of `ans`; registry/settings hashed before and after histories",
        text="Seeded histories of 5-60 queries of every kind (plain, time results, conversions, definitions, commands, substances, dates, failing queries of each error family, ans/ANS/_) on long-lived bundled and currency contexts with the feature on and off: every reply must equal the fresh-context reply for the model's previous answer, `ans` must follow the model, and the database, settings and load-time temporaries must be unchanged after each history.",
        note="`now`-dependent queries are exempt from reply comparison; after a time result either ans behaviour is accepted; histories are sampled, not enumerated."),
    "C18": dict(
        category="fault_enumeration", design_ref="DESIGN.md §2 C18",
        technique="runtime fault enumeration with a client-boundary history monitor: request/fault sequences through the real Sandbox::execute, call/return events with unique ids and child pids checked offline against a sequential model",
        text="Quick: every sequence of length <= 3 over {normal, panic, time-limit overrun, over-limit allocation, child exit, 1 MiB payload, over-limit payload} plus sampled sequences of length 5; thorough: every sequence of length <= 5 over the six kinds the property lists under two gap schedules plus every length <= 3 sequence containing the over-limit payload. Each request must get exactly one reply with its own id and result or an error naming its fault; later requests must be served by a restarted child; no stale ids.",
        note="Faults are the ones enumerated (no Ctrl-C, no handshake failures); timing-dependent outcomes use a 1.5 s service limit and a 20 s per-call watchdog; a driver-level timeout is inconclusive."),
    "C19": dict(
        category="exploration", design_ref="DESIGN.md §2 C19",
        technique="runtime monitoring with sanitizers: the real alloc.rs compiled into a reference-model monitor (content patterns, quiescent-point conservation at barriers) run natively and under Miri (many seeds), ThreadSanitizer, AddressSanitizer+LeakSanitizer and valgrind memcheck",
        text="Bounded-exhaustive single-thread histories (length <= 4 quick, <= 5 plus reduced-alphabet length 6 thorough) over the operation/size/limit grid against a sequential model checked after every operation, seeded random histories of length 200, and 2..16 threads on one allocator with usage = sum of live sizes and peak >= certainly-reached usage checked at barriers; any sanitizer report in the workload is a violation.",
        note="Holds on the histories and interleavings produced (fingerprints counted in evidence), not on all schedules; Miri workloads are small (about 1e4 operations per seed); transient over-charge refusals are allowed by the statement."),
    "C20": dict(
        category="fault_enumeration", design_ref="DESIGN.md §2 C20",
        technique="runtime fault enumeration on the real release `rink` binary: fault-injecting loopback HTTP server, cache-directory bytes before/after, this and the next start's output, strace log checked against a trace specification, SIGKILL injected (strace inject) at every traced file syscall of the refresh",
        text="Prior cache {absent, fresh, stale, unreadable fresh/stale, dated ahead of the clock} x server {200 complete under both framings, body cut after k bytes under both framings, 301/302/404/500/503, stalls, reset, refused, complete non-JSON body} x entry point {startup with a currency query, --fetch-currency}: the cache must hold the previous or the complete new bytes, rink must still start, use the stale cache and answer 1 + 1, new rates must be visible to the next start; the syscall trace must show no write to the cache file itself and fsync before every rename onto it; the client is killed at every file syscall of a successful refresh; sequences of refreshes on one cache directory (cut / stalled / killed, then a shorter complete body) must leave the previous or the complete new body after every step.",
        note="Durability of fsync under power loss is checked on the trace only (not observable in this VM); bodies without framing are not generated; quick cuts at 8 offsets, thorough at every 4 KiB and around every 16 KiB boundary."),
}

PENDING = {}

ALL = ["C%02d" % i for i in range(1, 21)]


def main():
    checks = []
    for pid in ALL:
        if pid not in CHECKS:
            continue
        c = CHECKS[pid]
        checks.append({
            "property_id": pid,
            "quick_cmd": "./check %s --tier quick" % pid,
            "thorough_cmd": "./check %s --tier thorough" % pid,
            "evidence_file": "/verif/evidence/%s.json" % pid,
            "replay_cmd_template": "./check %s --replay {path}" % pid,
            "engine": "rink-monitors",
            "level_claimed": {"category": c["category"], "text": c["text"], "design_ref": c["design_ref"]},
            "level_note": c["note"],
            "technique": c["technique"],
        })
    na = []
    for pid in ALL:
        if pid not in CHECKS:
            na.append({"property_id": pid,
                       "reason": PENDING.get(pid, "monitor not built yet in this round (planned in DESIGN.md §2); not claimed until its check exists")})
    manifest = {
        "version": 1,
        "setup_cmd": "/verif/tools/setup.sh",
        "hooks": {
            "guard": "--cfg rink_verif",
            "enable": "none needed: every observation point is public API; the guard name is reserved",
            "baseline_off_cmd": "cd /repo && cargo test --workspace --no-fail-fast --offline",
            "source_commits": [],
            "add_only": True,
        },
        "engines": [{
            "name": "rink-monitors",
            "path": "/verif/check",
            "serves_properties": sorted(CHECKS),
            "kind_free_text": "runtime monitoring: Rust observation probes over the real crates (path deps on /repo), Python workload generators and oracles over the recorded events",
        }],
        "checks": checks,
        "not_applicable": na,
        "notes": "See DESIGN.md. Exit codes: 0 held on everything observed, 1 violation (VIOLATION line + replay file), 2 harness failure / inconclusive.",
    }
    with open(os.path.join(HERE, "MANIFEST.json"), "w") as f:
        json.dump(manifest, f, indent=1)
    print("MANIFEST.json: %d checks, %d not claimed" % (len(checks), len(na)))


if __name__ == "__main__":
    main()
