#!/bin/bash
# Builds everything the checks need, from files on disk only (offline).  Checks rebuild incrementally
# themselves; this only makes their first run cheap.
set -e
export CARGO_NET_OFFLINE=true
cd /verif/harness
cargo build --offline
# the shipped CLI (release profile) for C04's process-level slice and C20
cargo build --offline --release -p rink --manifest-path /repo/Cargo.toml --target-dir /verif/target/rink-cli
# sanitizer builds of the allocator monitor (C19)
RUSTFLAGS="-Zsanitizer=thread" cargo +nightly build --offline -Zbuild-std --target x86_64-unknown-linux-gnu -p allocmon --target-dir /verif/target/tsan
RUSTFLAGS="-Zsanitizer=address -Cforce-frame-pointers=yes" cargo +nightly build --offline --target x86_64-unknown-linux-gnu -p allocmon --target-dir /verif/target/asan
MIRIFLAGS="-Zmiri-many-seeds=0..1" cargo +nightly miri run --offline -p allocmon --target-dir /verif/target/miri -- exhaustive --maxlen 1 >/dev/null
echo setup done
