#!/usr/bin/env python3
"""Runs checks against the seeded changes kept under /verif/seeded/<id>/ (patch.diff + meta.json):
apply the patch to /repo's working tree, run the property's check, undo the patch straight afterwards.
Usage: eval_seeded.py [--tier quick|thorough] [ids...]   -> /verif/seeded/RESULTS.json"""
import json
import os
import subprocess
import sys
import time

SEEDED = "/verif/seeded"
tier = "quick"
args = sys.argv[1:]
if args[:1] == ["--tier"]:
    tier = args[1]
    args = args[2:]
ids = args or sorted(d for d in os.listdir(SEEDED) if os.path.isdir(os.path.join(SEEDED, d)))
path = os.path.join(SEEDED, "RESULTS.json")
try:
    results = json.load(open(path))
except Exception:
    results = {}
clean = subprocess.run(["git", "-C", "/repo", "status", "--porcelain", "--untracked-files=no"], capture_output=True, text=True).stdout.strip()
assert clean == "", "/repo not clean: " + clean
for i in ids:
    d = os.path.join(SEEDED, i)
    meta = json.load(open(os.path.join(d, "meta.json")))
    props = meta.get("check_with") or [meta["property"]]
    if meta.get("obsolete"):
        results.setdefault(i, {})[tier] = {"result": "obsolete", "detail": meta["obsolete"]}
        print(i, "obsolete (not evaluated)")
        continue
    p = subprocess.run(["git", "-C", "/repo", "apply", os.path.join(d, "patch.diff")], capture_output=True, text=True)
    if p.returncode != 0:
        results.setdefault(i, {})[tier] = {"result": "patch does not apply", "detail": p.stderr[-300:]}
        print(i, "PATCH DOES NOT APPLY", p.stderr[-200:])
        continue
    try:
        for prop in props:
            t0 = time.time()
            c = subprocess.run(["/verif/check", prop, "--tier", tier], capture_output=True, text=True, cwd="/verif")
            sigs = [l.strip() for l in c.stdout.splitlines() if l.strip().startswith("signature:")]
            r = {"check": prop, "exit": c.returncode, "result": "caught" if c.returncode == 1 else ("missed" if c.returncode == 0 else "harness/inconclusive"),
                 "signatures": sigs[:3], "wall_s": round(time.time() - t0, 1), "tail": c.stdout.strip().splitlines()[-1:] }
            results.setdefault(i, {}).setdefault(tier, {})[prop] = r
            print(i, prop, tier, r["result"], r["wall_s"], flush=True)
    finally:
        subprocess.run(["git", "-C", "/repo", "checkout", "--", "."])
    json.dump(results, open(path, "w"), indent=1)
assert subprocess.run(["git", "-C", "/repo", "status", "--porcelain", "--untracked-files=no"], capture_output=True, text=True).stdout.strip() == ""
