#!/usr/bin/env python3
"""Re-make a seeded patch against /repo's current HEAD after later fixes touched its context.
usage: rebase_seeded.py <id> --3way            (context-only drift)
       rebase_seeded.py <id> <edits.json>      (edits: [{"file":..., "old":..., "new":...}, ...], same change by hand)
Keeps the original as patch.orig_<base>.diff, writes meta["rebased"].  /repo must be clean; it is clean afterwards."""
import json, os, subprocess, sys
i = sys.argv[1]
d = "/verif/seeded/" + i
def git(*a, **k):
    return subprocess.run(["git", "-C", "/repo"] + list(a), capture_output=True, text=True, **k)
assert git("status", "--porcelain", "--untracked-files=no").stdout.strip() == "", "/repo not clean"
head = git("rev-parse", "--short", "HEAD").stdout.strip()
meta = json.load(open(d + "/meta.json"))
base = (meta.get("confirmed") or {}).get("base_commit", "orig")
if sys.argv[2] == "--3way":
    p = git("apply", "--3way", d + "/patch.diff")
    assert p.returncode == 0, p.stderr
    git("reset", "-q")
else:
    for e in json.load(open(sys.argv[2])):
        path = "/repo/" + e["file"]
        s = open(path).read()
        assert s.count(e["old"]) == 1, ("old text not unique/present", e["file"], s.count(e["old"]))
        open(path, "w").write(s.replace(e["old"], e["new"]))
diff = git("diff").stdout
assert diff.strip()
if not os.path.exists(d + "/patch.orig_%s.diff" % base):
    os.rename(d + "/patch.diff", d + "/patch.orig_%s.diff" % base)
open(d + "/patch.diff", "w").write(diff)
git("checkout", "--", ".")
meta["rebased"] = {"onto": head, "how": "git apply --3way (context drift only)" if sys.argv[2] == "--3way" else "same change re-made by hand on the current code", "original": "patch.orig_%s.diff" % base}
json.dump(meta, open(d + "/meta.json", "w"), indent=1, ensure_ascii=False)
print(i, "rebased onto", head, len(diff.splitlines()), "lines")
