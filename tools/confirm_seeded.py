#!/usr/bin/env python3
"""Confirms a seeded change myself, in a scratch worktree outside /repo and /verif:
 (1) the patch applies to HEAD, (2) the workspace test suite still passes with it (the 152 baseline tests;
 the rink-sandbox `integration` target is ignored as it fails on the unchanged tree here),
 (3) the demonstration fails with the patch and (4) passes without it.
Records the outcome in seeded/<id>/meta.json under "confirmed".  Usage: confirm_seeded.py <id>..."""
import json
import os
import re
import shutil
import subprocess
import sys

WT = os.environ.get("CONFIRM_WT", "/tmp/wt_verify")   # CONFIRM_WT: reuse an already built scratch worktree
ENV = dict(os.environ, CARGO_NET_OFFLINE="true")


def sh(cmd, cwd=WT, timeout=3600):
    p = subprocess.run(cmd, cwd=cwd, shell=True, env=ENV, stdout=subprocess.PIPE, stderr=subprocess.STDOUT, text=True, timeout=timeout)
    return p.returncode, p.stdout


def suite():
    rc, out = sh("flock /tmp/rink_suite.lock cargo test --workspace --no-fail-fast --offline 2>&1")
    passed = sum(int(m.group(1)) for m in re.finditer(r"test result: \w+\. (\d+) passed", out))
    failed = sum(int(m.group(1)) for m in re.finditer(r"test result: \w+\. \d+ passed; (\d+) failed", out))
    compile_err = "error[" in out or "could not compile" in out
    return passed, failed, compile_err, out


def demo(d, meta):
    """True when the demonstration passes.  The files are placed under <worktree>/MUTANT/ as the authors expect."""
    os.makedirs(os.path.join(WT, "MUTANT"), exist_ok=True)
    for f in os.listdir(d):
        if f not in ("meta.json",):
            shutil.copy(os.path.join(d, f), os.path.join(WT, "MUTANT", f))
    files = os.listdir(d)
    if "demo.sh" in files:
        rc, out = sh("bash MUTANT/demo.sh 2>&1")
        return rc == 0, out[-1500:]
    cmd = meta.get("demo_command", "")
    rc, out = sh("(" + cmd + "\n) 2>&1")       # newline: a demo_command may end in a # comment
    failed = ("test result: FAILED" in out) or ("error: test failed" in out) or ("could not compile" in out)
    passed = "test result: ok" in out
    return (passed and not failed), out[-1500:]


def main():
    if not os.path.isdir(WT):
        subprocess.check_call(["git", "-C", "/repo", "worktree", "add", "-q", "--detach", WT, "HEAD"])
    for i in sys.argv[1:]:
        d = os.path.join("/verif/seeded", i)
        meta = json.load(open(os.path.join(d, "meta.json")))
        sh("git checkout -q -- . && git clean -fdq -e target")
        head = subprocess.check_output(["git", "-C", "/repo", "rev-parse", "HEAD"], text=True).strip()
        sh("git checkout -q --detach %s" % head)
        ok_without, out0 = demo(d, meta)
        sh("git checkout -q -- . && git clean -fdq -e target")
        rc, out = sh("git apply %s" % os.path.join(d, "patch.diff"))
        applies = rc == 0
        passed = failed = None
        compile_err = None
        ok_with = None
        if applies:
            passed, failed, compile_err, sout = suite()
            ok_with, out1 = demo(d, meta)
        conf = {"base_commit": head[:7], "patch_applies": applies, "suite_passed_with_patch": passed,
                "suite_failed_with_patch": failed, "compile_error": compile_err,
                "demo_passes_without_patch": ok_without, "demo_fails_with_patch": (ok_with is False),
                "commands": ["git apply patch.diff", "cargo test --workspace --no-fail-fast --offline", meta.get("demo_command", "bash demo.sh")]}
        conf["confirmed"] = bool(applies and not compile_err and passed is not None and passed >= 152 and failed == 0
                                 and ok_without and ok_with is False)
        meta["confirmed"] = conf
        json.dump(meta, open(os.path.join(d, "meta.json"), "w"), indent=1, ensure_ascii=False)
        print(i, "CONFIRMED" if conf["confirmed"] else "NOT CONFIRMED", conf)
        sh("git checkout -q -- . && git clean -fdq -e target")


main()
