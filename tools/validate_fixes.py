#!/usr/bin/env python3
"""For every `fixed:` entry of known_findings.json: revert that one fix in /repo's working tree
(reverse-apply its diff), run the property's quick check, expect a VIOLATION (exit 1), restore.
Shows that each check detects the defect whose repair it accompanied.  Writes
/verif/fix_validation.json.  /repo must be clean when this starts; it is clean when it ends."""
import json
import re
import subprocess
import sys
import time

TOGETHER = {"b820b69": ["64bb021"], "94258ae": ["4a92d24"], "f80b98e": ["12252bb"]}
res = []
try:
    res = [r for r in json.load(open("/verif/fix_validation.json")) if str(r.get("result", "")).startswith("detected")]
except Exception:
    res = []
done = {r["commit"] for r in res}
kf = json.load(open("/verif/known_findings.json"))
only = set(sys.argv[1:])
assert subprocess.run(["git", "-C", "/repo", "status", "--porcelain", "--untracked-files=no"], capture_output=True, text=True).stdout.strip() == "", "/repo not clean"
for entry in kf["fixed"]:
    m = re.match(r"fixed: property=(C\d+) ([0-9a-f]{7,}) (.*)", entry)
    prop, commit, what = m.groups()
    if only and prop not in only and commit not in only:
        continue
    if commit in done:
        continue
    # a later fix that rewrote the same lines is reverted first (the earlier defect is then exposed again)
    for c2 in TOGETHER.get(commit, []) + [commit]:
        diff = subprocess.run(["git", "-C", "/repo", "show", "--format=", c2], capture_output=True, text=True).stdout
        p = subprocess.run(["git", "-C", "/repo", "apply", "-R", "--3way"], input=diff, capture_output=True, text=True)
        if p.returncode != 0:
            break
    if p.returncode != 0:
        subprocess.run(["git", "-C", "/repo", "reset", "-q"])
        subprocess.run(["git", "-C", "/repo", "checkout", "--", "."])
        res.append({"property": prop, "commit": commit, "what": what, "result": "could not revert cleanly", "detail": p.stderr[-300:]})
        print(prop, commit, "REVERT FAILED")
        continue
    subprocess.run(["git", "-C", "/repo", "reset", "-q"])
    t0 = time.time()
    c = subprocess.run(["/verif/check", prop, "--tier", "quick"], capture_output=True, text=True, cwd="/verif")
    subprocess.run(["git", "-C", "/repo", "checkout", "--", "."])
    viol = [l for l in c.stdout.splitlines() if l.startswith("VIOLATION")]
    sigs = [l.strip() for l in c.stdout.splitlines() if l.strip().startswith("signature:")]
    res.append({"property": prop, "commit": commit, "what": what, "exit": c.returncode, "violations": len(viol),
                "signatures": sigs[:4], "wall_s": round(time.time() - t0, 1),
                "result": ("detected" + (" (together with %s)" % ",".join(TOGETHER[commit]) if commit in TOGETHER else ""))
                if c.returncode == 1 and viol else "NOT DETECTED"})
    print(prop, commit, res[-1]["result"], res[-1]["wall_s"], flush=True)
    json.dump(res, open("/verif/fix_validation.json", "w"), indent=1)
json.dump(res, open("/verif/fix_validation.json", "w"), indent=1)
assert subprocess.run(["git", "-C", "/repo", "status", "--porcelain", "--untracked-files=no"], capture_output=True, text=True).stdout.strip() == ""
