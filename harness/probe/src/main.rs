//! rink-probe: observation server over rink-core's public API.
//!
//! Contains NO oracle logic: it only exposes what the library computes. All verdicts
//! are taken by the Python monitors over the recorded events.
//!
//! Protocol: line-delimited JSON requests on stdin, one JSON reply line per request on
//! the fd given as argv[1] (rink-core println!s loader diagnostics to stdout, so stdout
//! is redirected by the driver to the file named in argv[2]; whatever the library
//! printed during a request is read back and attached to the reply as "diag").

use rink_core::ast::{Def, DefEntry, Defs, Expr, ExprString};
use rink_core::loader::gnu_units;
use rink_core::output::fmt::{Span, TokenFmt};
use rink_core::output::{
    ConformanceError, Digits, ExprReply, NumberParts, QueryError, QueryReply,
};
use rink_core::parsing::text_query::{self, Token, TokenIterator};
use rink_core::types::{BigInt, BigRat, Dimensionality, Number, Numeric};
use rink_core::Context;
use serde_json::{json, Map, Value as J};
use std::fs::File;
use std::io::{BufRead, BufReader, Read, Seek, SeekFrom, Write};
use std::os::fd::FromRawFd;
use std::panic::{catch_unwind, AssertUnwindSafe};
use std::sync::Mutex;
use std::time::Instant;

static LAST_PANIC: Mutex<Option<J>> = Mutex::new(None);

fn install_hook() {
    std::panic::set_hook(Box::new(|info| {
        let msg = if let Some(s) = info.payload().downcast_ref::<&str>() {
            s.to_string()
        } else if let Some(s) = info.payload().downcast_ref::<String>() {
            s.clone()
        } else {
            "<non-string payload>".to_string()
        };
        let loc = info
            .location()
            .map(|l| format!("{}:{}", l.file(), l.line()))
            .unwrap_or_default();
        let bt = std::backtrace::Backtrace::force_capture().to_string();
        // first frame whose source file lives in the repository under test
        let mut site = J::Null;
        let mut cur_sym = String::new();
        for line in bt.lines() {
            let t = line.trim_start();
            if let Some(rest) = t.strip_prefix("at ") {
                if rest.starts_with("/repo/") {
                    let file = rest.split(':').next().unwrap_or("").to_string();
                    site = json!({"fn": cur_sym, "file": file});
                    break;
                }
            } else if let Some(idx) = t.find(": ") {
                cur_sym = t[idx + 2..].to_string();
            }
        }
        *LAST_PANIC.lock().unwrap() = Some(json!({"msg": msg, "loc": loc, "site": site}));
    }));
}

fn take_panic() -> J {
    LAST_PANIC
        .lock()
        .unwrap()
        .take()
        .unwrap_or(json!({"msg": "<unknown>", "loc": "", "site": null}))
}

/// Run `f`, turning a panic into Err(panic record).
fn guarded<T>(f: impl FnOnce() -> T) -> Result<T, J> {
    match catch_unwind(AssertUnwindSafe(f)) {
        Ok(v) => Ok(v),
        Err(_) => Err(take_panic()),
    }
}

fn dims_json(d: &Dimensionality) -> J {
    let mut m = Map::new();
    for (k, &p) in d.iter() {
        m.insert(k.to_string(), json!(p));
    }
    J::Object(m)
}

fn numeric_json(v: &Numeric) -> Map<String, J> {
    let mut m = Map::new();
    match v {
        Numeric::Rational(r) => {
            m.insert("n".into(), json!(r.numer().to_string()));
            m.insert("d".into(), json!(r.denom().to_string()));
            m.insert("f".into(), json!(false));
        }
        Numeric::Float(f) => {
            m.insert("f".into(), json!(true));
            m.insert("fv".into(), json!(format!("{:?}", f)));
            if f.is_finite() {
                let (n, d) = v.to_rational();
                m.insert("n".into(), json!(n.to_string()));
                m.insert("d".into(), json!(d.to_string()));
            }
        }
    }
    m
}

fn num_json(n: &Number) -> J {
    let mut m = numeric_json(&n.value);
    m.insert("u".into(), dims_json(&n.unit));
    J::Object(m)
}

fn np_json(p: &NumberParts) -> J {
    json!({
        "raw": p.raw_value.as_ref().map(num_json),
        "exact": p.exact_value,
        "approx": p.approx_value,
        "factor": p.factor,
        "divfactor": p.divfactor,
        "raw_unit": p.raw_unit.as_ref().map(dims_json),
        "unit": p.unit,
        "quantity": p.quantity,
        "dimensions": p.dimensions,
        "raw_dimensions": p.raw_dimensions.as_ref().map(dims_json),
    })
}

fn conformance_json(e: &ConformanceError) -> J {
    json!({"left": np_json(&e.left), "right": np_json(&e.right), "suggestions": e.suggestions})
}

/// Explicit walk of the reply (independent of the derived Serialize).
fn reply_json(r: &Result<QueryReply, QueryError>) -> J {
    match r {
        Ok(QueryReply::Number(p)) => json!({"kind": "number", "value": np_json(p)}),
        Ok(QueryReply::Date(d)) => json!({"kind": "date", "year": d.year, "month": d.month,
            "day": d.day, "hour": d.hour, "minute": d.minute, "second": d.second,
            "nanosecond": d.nanosecond, "human": d.human, "string": d.string, "rfc3339": d.rfc3339}),
        Ok(QueryReply::Substance(s)) => json!({"kind": "substance", "name": s.name,
            "doc": s.doc.as_ref().map(|d| d.text.clone()),
            "amount": np_json(&s.amount),
            "properties": s.properties.iter().map(|p| json!({"name": p.name,
                "value": np_json(&p.value), "doc": p.doc.as_ref().map(|d| d.text.clone())})).collect::<Vec<_>>()}),
        Ok(QueryReply::Duration(d)) => json!({"kind": "duration", "raw": np_json(&d.raw),
            "years": np_json(&d.years), "months": np_json(&d.months), "weeks": np_json(&d.weeks),
            "days": np_json(&d.days), "hours": np_json(&d.hours), "minutes": np_json(&d.minutes),
            "seconds": np_json(&d.seconds)}),
        Ok(QueryReply::Def(d)) => json!({"kind": "def", "canon_name": d.canon_name, "def": d.def,
            "def_expr": d.def_expr.as_ref().map(|e| serde_json::to_value(e).unwrap_or(J::Null)),
            "value": d.value.as_ref().map(np_json),
            "doc": d.doc.as_ref().map(|d| d.text.clone())}),
        Ok(QueryReply::Conversion(c)) => json!({"kind": "conversion", "value": np_json(&c.value)}),
        Ok(QueryReply::Factorize(f)) => json!({"kind": "factorize",
            "factorizations": f.factorizations.iter().map(|x| {
                let mut m = Map::new();
                for (k, v) in x.units.iter() { m.insert((**k).clone(), json!(v)); }
                J::Object(m)
            }).collect::<Vec<_>>()}),
        Ok(QueryReply::UnitsFor(u)) => json!({"kind": "unitsfor", "of": np_json(&u.of),
            "units": u.units.iter().map(|c| json!({"category": c.category, "units": c.units})).collect::<Vec<_>>()}),
        Ok(QueryReply::UnitList(l)) => json!({"kind": "unitlist", "rest": np_json(&l.rest),
            "list": l.list.iter().map(np_json).collect::<Vec<_>>()}),
        Ok(QueryReply::Search(s)) => json!({"kind": "search",
            "results": s.results.iter().map(np_json).collect::<Vec<_>>()}),
        Err(QueryError::Conformance(c)) => json!({"kind": "err_conformance", "err": conformance_json(c)}),
        Err(QueryError::NotFound(n)) => json!({"kind": "err_notfound", "got": n.got, "suggestion": n.suggestion}),
        Err(QueryError::Generic { message }) => json!({"kind": "err_generic", "message": message}),
    }
}

fn flatten_spans<'a>(spans: &[Span<'a>], out: &mut Vec<J>, depth: usize) {
    for s in spans {
        match s {
            Span::Content { text, token } => out.push(json!([format!("{:?}", token), text])),
            Span::Child(c) => {
                if depth < 64 {
                    flatten_spans(&c.to_spans(), out, depth + 1)
                } else {
                    out.push(json!(["TOO_DEEP", ""]))
                }
            }
        }
    }
}

struct Probe {
    ctxs: Vec<Option<Context>>,
    diag: File,
    diag_off: u64,
}

fn parse_digits(v: &J) -> Digits {
    match v {
        J::String(s) => match s.as_str() {
            "fullint" => Digits::FullInt,
            "frac" => Digits::Fraction,
            "sci" => Digits::Scientific,
            "eng" => Digits::Engineering,
            _ => Digits::Default,
        },
        J::Object(m) => Digits::Digits(m.get("digits").and_then(|x| x.as_u64()).unwrap_or(0)),
        _ => Digits::Default,
    }
}

fn parse_number(v: &J) -> Option<Number> {
    let n = BigInt::from_str_radix(v.get("n").and_then(|x| x.as_str()).unwrap_or("0"), 10).ok()?;
    let d = BigInt::from_str_radix(v.get("d").and_then(|x| x.as_str()).unwrap_or("1"), 10).ok()?;
    let value = if v.get("f").and_then(|x| x.as_bool()).unwrap_or(false) {
        // floats travel by their textual form so that -0.0 (and the exact bits) survive the round trip
        match v.get("fv").and_then(|x| x.as_str()).and_then(|x| x.parse::<f64>().ok()) {
            Some(f) => Numeric::Float(f),
            None => Numeric::Float(Numeric::Rational(BigRat::ratio(&n, &d)).to_f64()),
        }
    } else {
        Numeric::Rational(BigRat::ratio(&n, &d))
    };
    let mut unit = Dimensionality::new();
    if let Some(J::Object(m)) = v.get("u") {
        for (k, p) in m {
            unit = &unit
                * &Dimensionality::new_dim(rink_core::types::BaseUnit::new(k), p.as_i64()?);
        }
    }
    Some(Number { value, unit })
}

fn expr_json(e: &Expr) -> J {
    serde_json::to_value(e).unwrap_or_else(|e| json!({"serde_error": e.to_string()}))
}

fn join_exprparts(parts: &J, out: &mut String) {
    if let Some(arr) = parts.as_array() {
        for p in arr {
            match p.get("type").and_then(|t| t.as_str()) {
                Some("literal") => {
                    out.push_str(p["text"].as_str().unwrap_or(""));
                    out.push(' ');
                }
                Some("unit") => {
                    out.push_str(p["name"].as_str().unwrap_or(""));
                    out.push(' ');
                }
                Some("property") => {
                    out.push_str(p["property"].as_str().unwrap_or(""));
                    out.push_str(" of ");
                    join_exprparts(&p["subject"], out);
                }
                Some("error") => {
                    out.push_str("<error>");
                    out.push(' ');
                }
                _ => {}
            }
        }
    }
}

fn parse_with_eof(text: &str) -> (Expr, bool) {
    let mut iter = TokenIterator::new(text).peekable();
    let e = text_query::parse_expr(&mut iter);
    let eof = matches!(iter.next(), Some(Token::Eof));
    (e, eof)
}

fn def_kind(d: &Def) -> &'static str {
    match d {
        Def::BaseUnit { .. } => "baseunit",
        Def::Prefix { .. } => "prefix",
        Def::Unit { .. } => "unit",
        Def::Quantity { .. } => "quantity",
        Def::Substance { .. } => "substance",
        Def::Category { .. } => "category",
        Def::Error { .. } => "error",
    }
}

fn def_exprs(d: &Def) -> Vec<(String, &Expr)> {
    match d {
        Def::Prefix { expr, .. } | Def::Unit { expr } | Def::Quantity { expr } => {
            vec![("expr".to_string(), &expr.0)]
        }
        Def::Substance { properties, .. } => {
            let mut v = vec![];
            for p in properties {
                v.push((format!("{}.input", p.name), &p.input.0));
                v.push((format!("{}.output", p.name), &p.output.0));
            }
            v
        }
        _ => vec![],
    }
}

impl Probe {
    fn read_diag(&mut self) -> String {
        let _ = std::io::stdout().flush();
        let mut s = String::new();
        if self.diag.seek(SeekFrom::Start(self.diag_off)).is_ok() {
            let mut buf = Vec::new();
            if let Ok(n) = self.diag.read_to_end(&mut buf) {
                self.diag_off += n as u64;
                s = String::from_utf8_lossy(&buf).into_owned();
            }
        }
        s
    }

    fn ctx(&mut self, req: &J) -> Result<&mut Context, String> {
        let id = req.get("ctx").and_then(|x| x.as_u64()).unwrap_or(0) as usize;
        self.ctxs
            .get_mut(id)
            .and_then(|c| c.as_mut())
            .ok_or_else(|| format!("no context {}", id))
    }

    fn add_ctx(&mut self, c: Context) -> usize {
        self.ctxs.push(Some(c));
        self.ctxs.len() - 1
    }

    fn handle(&mut self, req: &J) -> J {
        let op = req.get("op").and_then(|x| x.as_str()).unwrap_or("");
        let t0 = Instant::now();
        let mut out = match op {
            "ping" => json!({"pong": true}),
            "newctx" => self.op_newctx(req),
            "dropctx" => {
                let id = req.get("ctx").and_then(|x| x.as_u64()).unwrap_or(0) as usize;
                if let Some(c) = self.ctxs.get_mut(id) {
                    *c = None;
                }
                json!({})
            }
            "setctx" => self.op_setctx(req),
            "getctx" => self.op_getctx(req),
            "eval" => self.op_eval(req),
            "parse" => self.op_parse(req),
            "numeral" => self.op_numeral(req),
            "lookup" => self.op_lookup(req),
            "dump" => self.op_dump(req),
            "evaldefs" => self.op_evaldefs(req),
            "load" => self.op_load(req),
            "defs" => self.op_defs(req),
            "defs_roundtrip" => self.op_defs_roundtrip(req),
            "lex" => self.op_lex(req),
            _ => json!({"harness_error": format!("unknown op {}", op)}),
        };
        let us = t0.elapsed().as_micros() as u64;
        let diag = self.read_diag();
        if let J::Object(ref mut m) = out {
            m.insert("us".into(), json!(us));
            if !diag.is_empty() {
                m.insert("diag".into(), json!(diag));
            }
            if let Some(id) = req.get("id") {
                m.insert("id".into(), id.clone());
            }
        }
        out
    }

    fn op_newctx(&mut self, req: &J) -> J {
        let kind = req.get("kind").and_then(|x| x.as_str()).unwrap_or("bundled");
        let res = guarded(|| -> Result<Context, String> {
            match kind {
                "empty" => Ok(Context::new()),
                "bundled" | "currency" => {
                    let mut ctx = rink_core::simple_context()?;
                    if kind == "currency" {
                        let path = req
                            .get("snapshot")
                            .and_then(|x| x.as_str())
                            .unwrap_or("/repo/core/tests/currency.snapshot.json");
                        let live = std::fs::read_to_string(path).map_err(|e| e.to_string())?;
                        ctx.load_currency(&live, rink_core::CURRENCY_FILE.unwrap())?;
                    }
                    Ok(ctx)
                }
                k => Err(format!("unknown ctx kind {}", k)),
            }
        });
        match res {
            Ok(Ok(mut c)) => {
                c.use_humanize = req.get("humanize").and_then(|x| x.as_bool()).unwrap_or(false);
                c.save_previous_result =
                    req.get("save_prev").and_then(|x| x.as_bool()).unwrap_or(false);
                json!({"ctx": self.add_ctx(c)})
            }
            Ok(Err(e)) => json!({"error": e}),
            Err(p) => json!({"panic": p}),
        }
    }

    fn op_setctx(&mut self, req: &J) -> J {
        let req2 = req.clone();
        let ctx = match self.ctx(req) {
            Ok(c) => c,
            Err(e) => return json!({"harness_error": e}),
        };
        if let Some(b) = req2.get("save_prev").and_then(|x| x.as_bool()) {
            ctx.save_previous_result = b;
        }
        if let Some(b) = req2.get("humanize").and_then(|x| x.as_bool()) {
            ctx.use_humanize = b;
        }
        if let Some(p) = req2.get("prev") {
            ctx.previous_result = if p.is_null() { None } else { parse_number(p) };
        }
        if let Some(t) = req2.get("time").and_then(|x| x.as_i64()) {
            use chrono::TimeZone;
            ctx.set_time(chrono::Local.timestamp_opt(t, 0).unwrap());
        }
        json!({})
    }

    fn op_getctx(&mut self, req: &J) -> J {
        let ctx = match self.ctx(req) {
            Ok(c) => c,
            Err(e) => return json!({"harness_error": e}),
        };
        let dbg = format!("{:?}", ctx.previous_result.is_some());
        let _ = dbg;
        json!({
            "prev": ctx.previous_result.as_ref().map(num_json),
            "save_prev": ctx.save_previous_result,
            "humanize": ctx.use_humanize,
            "now": ctx.now.timestamp(),
        })
    }

    fn op_eval(&mut self, req: &J) -> J {
        let q = req.get("q").and_then(|x| x.as_str()).unwrap_or("").to_string();
        let time = req.get("time").and_then(|x| x.as_i64());
        let want_spans = req.get("spans").and_then(|x| x.as_bool()).unwrap_or(true);
        let want_json = req.get("json").and_then(|x| x.as_bool()).unwrap_or(true);
        let ctx = match self.ctx(req) {
            Ok(c) => c,
            Err(e) => return json!({"harness_error": e}),
        };
        let mut out = Map::new();
        let mut panics: Vec<J> = vec![];
        let res = guarded(|| {
            if let Some(t) = time {
                use chrono::TimeZone;
                ctx.set_time(chrono::Local.timestamp_opt(t, 0).unwrap());
                let mut iter = TokenIterator::new(q.trim()).peekable();
                let query = text_query::parse_query(&mut iter);
                let res = ctx.eval_query(&query);
                if ctx.save_previous_result {
                    if let Ok(QueryReply::Number(ref parts)) = res {
                        if let Some(ref raw) = parts.raw_value {
                            ctx.previous_result = Some(raw.clone());
                        }
                    }
                }
                res
            } else {
                rink_core::eval(ctx, &q)
            }
        });
        match res {
            Err(p) => {
                let mut p = p;
                p["phase"] = json!("eval");
                panics.push(p);
            }
            Ok(res) => {
                match guarded(|| reply_json(&res)) {
                    Ok(r) => {
                        out.insert("r".into(), r);
                    }
                    Err(mut p) => {
                        p["phase"] = json!("walk");
                        panics.push(p);
                    }
                }
                match guarded(|| match &res {
                    Ok(r) => r.to_string(),
                    Err(e) => e.to_string(),
                }) {
                    Ok(t) => {
                        out.insert("text".into(), json!(t));
                    }
                    Err(mut p) => {
                        p["phase"] = json!("to_string");
                        panics.push(p);
                    }
                }
                if want_spans {
                    match guarded(|| {
                        let spans = res.to_spans();
                        let mut flat = vec![];
                        flatten_spans(&spans, &mut flat, 0);
                        flat
                    }) {
                        Ok(s) => {
                            out.insert("spans".into(), J::Array(s));
                        }
                        Err(mut p) => {
                            p["phase"] = json!("to_spans");
                            panics.push(p);
                        }
                    }
                }
                if want_json {
                    match guarded(|| match &res {
                        Ok(r) => serde_json::to_value(r).map_err(|e| e.to_string()),
                        Err(e) => serde_json::to_value(e).map_err(|e| e.to_string()),
                    }) {
                        Ok(Ok(v)) => {
                            out.insert("json".into(), v);
                        }
                        Ok(Err(e)) => {
                            out.insert("json_error".into(), json!(e));
                        }
                        Err(mut p) => {
                            p["phase"] = json!("serde_json");
                            panics.push(p);
                        }
                    }
                }
            }
        }
        if want_json {
            // the parsed query as JSON: what rink-js hands to JavaScript (`getExpr`, which unwraps the result)
            match guarded(|| {
                let mut iter = TokenIterator::new(q.trim()).peekable();
                let query = text_query::parse_query(&mut iter);
                serde_json::to_string(&query).map(|s| s.len()).map_err(|e| e.to_string())
            }) {
                Ok(Ok(_)) => {}
                Ok(Err(e)) => {
                    out.insert("query_json_error".into(), json!(e));
                }
                Err(mut p) => {
                    p["phase"] = json!("query_serde_json");
                    panics.push(p);
                }
            }
        }
        match guarded(|| ctx.previous_result.as_ref().map(num_json)) {
            Ok(p) => {
                out.insert("prev".into(), json!(p));
            }
            Err(mut p) => {
                p["phase"] = json!("prev");
                panics.push(p);
            }
        }
        if !panics.is_empty() {
            out.insert("panics".into(), J::Array(panics));
        }
        J::Object(out)
    }

    /// C11: parse -> print -> parse, plus ExprReply and ExprString/DefEntry serde round trips.
    fn op_parse(&mut self, req: &J) -> J {
        let q = req.get("q").and_then(|x| x.as_str()).unwrap_or("").to_string();
        match guarded(|| {
            let (e1, eof1) = parse_with_eof(&q);
            let printed = e1.to_string();
            let (e2, eof2) = parse_with_eof(&printed);
            let er = serde_json::to_value(ExprReply::from(&e1)).unwrap_or(J::Null);
            let mut er_text = String::new();
            join_exprparts(&er["exprs"], &mut er_text);
            let (e3, eof3) = parse_with_eof(er_text.trim());
            // DefEntry through serde_json
            let entry = DefEntry::new_unit("probe_roundtrip", None, None, e1.clone());
            let ser = serde_json::to_string(&entry).map_err(|e| e.to_string());
            let (de_ok, de_err, e4) = match &ser {
                Ok(s) => match serde_json::from_str::<DefEntry>(s) {
                    Ok(back) => match &*back.def {
                        Def::Unit { expr } => (true, J::Null, expr_json(&expr.0)),
                        _ => (false, json!("not a unit def"), J::Null),
                    },
                    Err(e) => (false, json!(e.to_string()), J::Null),
                },
                Err(e) => (false, json!(e), J::Null),
            };
            json!({
                "e1": expr_json(&e1), "eof1": eof1,
                "printed": printed,
                "e2": expr_json(&e2), "eof2": eof2,
                "er_text": er_text.trim(), "e3": expr_json(&e3), "eof3": eof3,
                "exprstring_eq": ExprString(e1.clone()) == ExprString(e2.clone()),
                "serde_ok": de_ok, "serde_err": de_err, "e4": e4,
            })
        }) {
            Ok(v) => v,
            Err(p) => json!({"panic": p}),
        }
    }

    fn op_lex(&mut self, req: &J) -> J {
        let q = req.get("q").and_then(|x| x.as_str()).unwrap_or("").to_string();
        match guarded(|| {
            let mut toks = vec![];
            for t in TokenIterator::new(&q) {
                let eof = matches!(t, Token::Eof);
                toks.push(format!("{:?}", t));
                if eof || toks.len() > 2000 {
                    break;
                }
            }
            json!({"tokens": toks})
        }) {
            Ok(v) => v,
            Err(p) => json!({"panic": p}),
        }
    }

    fn op_numeral(&mut self, req: &J) -> J {
        let n = req.get("n").and_then(|x| x.as_str()).unwrap_or("0");
        let d = req.get("d").and_then(|x| x.as_str()).unwrap_or("1");
        let base = req.get("base").and_then(|x| x.as_u64()).unwrap_or(10) as u8;
        let digits = parse_digits(req.get("digits").unwrap_or(&J::Null));
        let (n, d) = match (BigInt::from_str_radix(n, 10), BigInt::from_str_radix(d, 10)) {
            (Ok(n), Ok(d)) => (n, d),
            _ => return json!({"harness_error": "bad n/d"}),
        };
        match guarded(|| {
            let v = Numeric::Rational(BigRat::ratio(&n, &d));
            let (exact, text) = v.to_string(base, digits);
            let (sr_exact, sr_approx) = v.string_repr(base, digits);
            json!({"is_exact": exact, "text": text, "sr_exact": sr_exact, "sr_approx": sr_approx})
        }) {
            Ok(v) => v,
            Err(p) => json!({"panic": p}),
        }
    }

    fn op_lookup(&mut self, req: &J) -> J {
        let names: Vec<String> = req
            .get("names")
            .and_then(|x| x.as_array())
            .map(|a| a.iter().filter_map(|s| s.as_str().map(String::from)).collect())
            .unwrap_or_default();
        let compact = req.get("compact").and_then(|x| x.as_bool()).unwrap_or(false);
        let ctx = match self.ctx(req) {
            Ok(c) => c,
            Err(e) => return json!({"harness_error": e}),
        };
        let mut res = vec![];
        for name in names {
            let r = guarded(|| {
                let v = ctx.lookup(&name);
                let canon = ctx.canonicalize(&name);
                let cv = canon.as_ref().and_then(|c| ctx.lookup(c));
                let v2 = ctx.lookup(&name);
                if compact {
                    // value once; flags say whether the other readings are identical
                    json!({
                        "v": v.as_ref().map(num_json),
                        "canon": canon,
                        "cv_same": match (&v, &cv) { (Some(a), Some(b)) => json!(a == b), (None, None) => json!(true), _ => json!(false) },
                        "cv": if cv.is_some() && cv != v { cv.as_ref().map(num_json) } else { None },
                        "cv_some": cv.is_some(),
                        "again_same": v == v2,
                    })
                } else {
                    json!({
                        "v": v.as_ref().map(num_json),
                        "canon": canon,
                        "cv": cv.as_ref().map(num_json),
                        "cv_some": cv.is_some(),
                        "again_same": v == v2,
                    })
                }
            });
            res.push(match r {
                Ok(v) => v,
                Err(p) => json!({"panic": p}),
            });
        }
        json!({"results": res})
    }

    fn op_dump(&mut self, req: &J) -> J {
        let ctx = match self.ctx(req) {
            Ok(c) => c,
            Err(e) => return json!({"harness_error": e}),
        };
        match guarded(|| dump_ctx(ctx)) {
            Ok(v) => json!({"dump": v}),
            Err(p) => json!({"panic": p}),
        }
    }

    /// C08: re-evaluate every stored definition in its own loaded context.
    fn op_evaldefs(&mut self, req: &J) -> J {
        let ctx = match self.ctx(req) {
            Ok(c) => c,
            Err(e) => return json!({"harness_error": e}),
        };
        let mut out = Map::new();
        let names: Vec<String> = ctx.registry.definitions.keys().cloned().collect();
        for name in names {
            let r = guarded(|| {
                let expr = ctx.registry.definitions.get(&name).unwrap();
                match ctx.eval(expr) {
                    Ok(rink_core::Value::Number(n)) => json!({"number": num_json(&n)}),
                    Ok(rink_core::Value::Substance(_)) => json!({"other": "substance"}),
                    Ok(rink_core::Value::DateTime(_)) => json!({"other": "datetime"}),
                    Err(e) => json!({"error": e.to_string()}),
                }
            });
            out.insert(name, match r {
                Ok(v) => v,
                Err(p) => json!({"panic": p}),
            });
        }
        json!({"values": out})
    }

    /// Parsed definitions of a text, for the monitors that need to see entries
    /// (names, kinds, printed expressions) without loading them.
    fn op_defs(&mut self, req: &J) -> J {
        let text = match self.source_text(req) {
            Ok(t) => t,
            Err(e) => return json!({"harness_error": e}),
        };
        match guarded(|| {
            let defs = gnu_units::parse_str(&text);
            let mut out = vec![];
            for e in &defs.defs {
                let exprs: Vec<J> = def_exprs(&e.def)
                    .into_iter()
                    .map(|(k, x)| json!({"slot": k, "text": x.to_string(), "ast": expr_json(x)}))
                    .collect();
                let mut extra = Map::new();
                match &*e.def {
                    Def::BaseUnit { long_name } => {
                        extra.insert("long_name".into(), json!(long_name));
                    }
                    Def::Prefix { is_long, .. } => {
                        extra.insert("is_long".into(), json!(is_long));
                    }
                    Def::Substance { symbol, properties } => {
                        extra.insert("symbol".into(), json!(symbol));
                        extra.insert(
                            "props".into(),
                            J::Array(
                                properties
                                    .iter()
                                    .map(|p| json!({"name": p.name, "input_name": p.input_name, "output_name": p.output_name}))
                                    .collect(),
                            ),
                        );
                    }
                    Def::Category { display_name } => {
                        extra.insert("display_name".into(), json!(display_name));
                    }
                    Def::Error { message } => {
                        extra.insert("message".into(), json!(message));
                    }
                    _ => {}
                }
                out.push(json!({"name": e.name, "kind": def_kind(&e.def), "doc": e.doc,
                    "category": e.category, "exprs": exprs, "extra": extra}));
            }
            json!({"defs": out})
        }) {
            Ok(v) => v,
            Err(p) => json!({"panic": p}),
        }
    }

    fn source_text(&self, req: &J) -> Result<String, String> {
        if let Some(t) = req.get("text").and_then(|x| x.as_str()) {
            return Ok(t.to_string());
        }
        match req.get("source").and_then(|x| x.as_str()).unwrap_or("bundled") {
            "bundled" => Ok(rink_core::DEFAULT_FILE.unwrap().to_string()),
            "currency_units" => Ok(rink_core::CURRENCY_FILE.unwrap().to_string()),
            "dates" => Ok(rink_core::DATES_FILE.unwrap().to_string()),
            s => Err(format!("unknown source {}", s)),
        }
    }

    /// C11: every definition of a text through the DefEntry serde round trip.
    fn op_defs_roundtrip(&mut self, req: &J) -> J {
        let text = match self.source_text(req) {
            Ok(t) => t,
            Err(e) => return json!({"harness_error": e}),
        };
        match guarded(|| {
            let defs = gnu_units::parse_str(&text);
            let mut out = vec![];
            for e in &defs.defs {
                let before = serde_json::to_value(e).map_err(|x| x.to_string());
                let (ok, err, after) = match &before {
                    Ok(v) => match serde_json::from_value::<DefEntry>(v.clone()) {
                        Ok(back) => {
                            // compare expression trees, not printed text
                            let a: Vec<J> = def_exprs(&e.def).into_iter().map(|(_, x)| expr_json(x)).collect();
                            let b: Vec<J> = def_exprs(&back.def).into_iter().map(|(_, x)| expr_json(x)).collect();
                            (a == b, J::Null, json!(b))
                        }
                        Err(x) => (false, json!(x.to_string()), J::Null),
                    },
                    Err(x) => (false, json!(x), J::Null),
                };
                let exprs: Vec<J> = def_exprs(&e.def)
                    .into_iter()
                    .map(|(k, x)| json!({"slot": k, "text": x.to_string(), "ast": expr_json(x)}))
                    .collect();
                out.push(json!({"name": e.name, "kind": def_kind(&e.def), "ok": ok, "err": err,
                    "exprs": exprs, "after": after}));
            }
            json!({"entries": out})
        }) {
            Ok(v) => v,
            Err(p) => json!({"panic": p}),
        }
    }

    /// New context built by a list of steps; each step's Result is recorded.
    fn op_load(&mut self, req: &J) -> J {
        let steps = req.get("steps").and_then(|x| x.as_array()).cloned().unwrap_or_default();
        let mut ctx = Context::new();
        ctx.use_humanize = false;
        let mut results = vec![];
        for step in &steps {
            let kind = step.get("kind").and_then(|x| x.as_str()).unwrap_or("");
            let t0 = Instant::now();
            let r = guarded(|| -> Result<(), String> {
                match kind {
                    "text" => {
                        let text = self.source_text(step)?;
                        ctx.load_definitions(&text)
                    }
                    // several texts parsed separately and concatenated, as cli/src/config.rs does
                    "texts" => {
                        let mut all = vec![];
                        for t in step.get("texts").and_then(|x| x.as_array()).cloned().unwrap_or_default() {
                            let mut d = gnu_units::parse_str(t.as_str().unwrap_or(""));
                            all.append(&mut d.defs);
                        }
                        ctx.load(Defs { defs: all })
                    }
                    // permutation of the parsed entries of one text: entries are moved, never re-serialised
                    "perm" => {
                        let text = self.source_text(step)?;
                        let defs = gnu_units::parse_str(&text);
                        let mut slots: Vec<Option<DefEntry>> = defs.defs.into_iter().map(Some).collect();
                        let order: Vec<usize> = step
                            .get("order")
                            .and_then(|x| x.as_array())
                            .map(|a| a.iter().filter_map(|i| i.as_u64().map(|i| i as usize)).collect())
                            .unwrap_or_else(|| (0..slots.len()).collect());
                        if order.len() != slots.len() {
                            return Err(format!("HARNESS: order has {} entries, text has {}", order.len(), slots.len()));
                        }
                        let mut out = vec![];
                        for i in order {
                            match slots.get_mut(i).and_then(|s| s.take()) {
                                Some(e) => out.push(e),
                                None => return Err(format!("HARNESS: bad/duplicate index {}", i)),
                            }
                        }
                        ctx.load(Defs { defs: out })
                    }
                    "currency" => {
                        let live = match step.get("json").and_then(|x| x.as_str()) {
                            Some(s) => s.to_string(),
                            None => std::fs::read_to_string("/repo/core/tests/currency.snapshot.json")
                                .map_err(|e| format!("HARNESS: {}", e))?,
                        };
                        let units = match step.get("units").and_then(|x| x.as_str()) {
                            Some(s) => s.to_string(),
                            None => rink_core::CURRENCY_FILE.unwrap().to_string(),
                        };
                        ctx.load_currency(&live, &units)
                    }
                    "dates" => {
                        let text = match step.get("text").and_then(|x| x.as_str()) {
                            Some(s) => s.to_string(),
                            None => rink_core::DATES_FILE.unwrap().to_string(),
                        };
                        ctx.load_date_file(&text);
                        Ok(())
                    }
                    k => Err(format!("HARNESS: unknown step {}", k)),
                }
            });
            let us = t0.elapsed().as_micros() as u64;
            let diag = self.read_diag();
            results.push(match r {
                Ok(Ok(())) => json!({"ok": true, "us": us, "diag": diag}),
                Ok(Err(e)) => json!({"ok": false, "err": e, "us": us, "diag": diag}),
                Err(p) => json!({"ok": false, "panic": p, "us": us, "diag": diag}),
            });
        }
        let n_defs = ctx.registry.units.len();
        let id = self.add_ctx(ctx);
        json!({"ctx": id, "results": results, "n_units": n_defs})
    }
}

fn dump_ctx(ctx: &Context) -> J {
    let r = &ctx.registry;
    let mut units = Map::new();
    for (k, v) in &r.units {
        units.insert(k.clone(), num_json(v));
    }
    let mut defs = Map::new();
    for (k, v) in &r.definitions {
        defs.insert(k.clone(), json!({"text": v.to_string(), "ast": expr_json(v)}));
    }
    let mut subs = Map::new();
    for (k, s) in &r.substances {
        let mut props = Map::new();
        for (pk, p) in &s.properties.properties {
            props.insert(
                pk.clone(),
                json!({"input": num_json(&p.input), "input_name": p.input_name,
                    "output": num_json(&p.output), "output_name": p.output_name,
                    "doc": p.doc.as_ref().map(|d| d.text.clone())}),
            );
        }
        subs.insert(
            k.clone(),
            json!({"amount": num_json(&s.amount), "pname": s.properties.name, "props": props}),
        );
    }
    let dbg = format!("{:?}", ctx);
    // `temporaries` is pub(crate); its emptiness is visible through the derived Debug.
    let temporaries_empty = dbg.contains("temporaries: {}");
    json!({
        "base_units": r.base_units.iter().map(|b| b.to_string()).collect::<Vec<_>>(),
        "long_names": r.base_unit_long_names,
        "units": units,
        "quantities": r.quantities.iter().map(|(d, n)| json!([dims_json(d), n])).collect::<Vec<_>>(),
        "decomposition_units": r.decomposition_units.iter().map(|(d, n)| json!([dims_json(d), n])).collect::<Vec<_>>(),
        "prefixes": r.prefixes.iter().map(|(n, v)| json!([n, J::Object(numeric_json(v))])).collect::<Vec<_>>(),
        "definitions": defs,
        "docs": r.docs.iter().map(|(k, v)| (k.clone(), json!(v.text))).collect::<Map<String, J>>(),
        "categories": r.categories,
        "category_names": r.category_names,
        "datepatterns": r.datepatterns.iter().map(|p| p.iter().map(|x| x.to_string()).collect::<Vec<_>>().join(" ")).collect::<Vec<_>>(),
        "substances": subs,
        "symbols": r.substance_symbols,
        "temporaries_empty": temporaries_empty,
        "use_humanize": ctx.use_humanize,
        "save_previous_result": ctx.save_previous_result,
    })
}

fn serve() {
    let args: Vec<String> = std::env::args().collect();
    let fd: i32 = args.get(1).and_then(|s| s.parse().ok()).expect("usage: rink-probe <fd> <diagfile>");
    let diag_path = args.get(2).expect("usage: rink-probe <fd> <diagfile>");
    // SAFETY: the driver passes an inherited, open, write-only pipe fd that nothing else uses.
    let mut out = unsafe { File::from_raw_fd(fd) };
    let diag = File::open(diag_path).expect("open diag file");
    let mut probe = Probe { ctxs: vec![], diag, diag_off: 0 };
    probe.diag_off = probe.diag.metadata().map(|m| m.len()).unwrap_or(0);
    install_hook();
    let stdin = std::io::stdin();
    let reader = BufReader::new(stdin.lock());
    for line in reader.lines() {
        let line = match line {
            Ok(l) => l,
            Err(_) => break,
        };
        if line.trim().is_empty() {
            continue;
        }
        let reply = match serde_json::from_str::<J>(&line) {
            Ok(req) => match guarded(|| probe.handle(&req)) {
                Ok(v) => v,
                Err(p) => json!({"panic": p, "phase": "handler", "id": req.get("id")}),
            },
            Err(e) => json!({"harness_error": format!("bad request json: {}", e)}),
        };
        let mut s = serde_json::to_string(&reply).unwrap_or_else(|e| format!("{{\"harness_error\":\"reply not serialisable: {}\"}}", e));
        s.push('\n');
        if out.write_all(s.as_bytes()).is_err() {
            break;
        }
        let _ = out.flush();
    }
}

fn main() {
    // Same stack the CLI's main thread has by default (8 MiB), so stack-depth
    // observations (C04, C13) are those a user would see.
    let stack = std::env::var("PROBE_STACK_MB").ok().and_then(|s| s.parse::<usize>().ok()).unwrap_or(8);
    std::thread::Builder::new()
        .stack_size(stack * 1024 * 1024)
        .spawn(serve)
        .unwrap()
        .join()
        .ok();
}
