//! allocmon: runtime monitor for rink-sandbox's counting allocator (property C19).
//!
//! The real source file is compiled into this crate (it only needs `std`), so the same
//! workload can run natively, under Miri, ThreadSanitizer, AddressSanitizer and valgrind
//! without building the sandbox's async dependency tree.  `peek()` lives inside the module
//! so it can read the private counters: an observation hook that does not touch /repo.
//!
//! Output: one JSON object on stdout.  Exit 0 = no violation observed, 1 = violation.

mod alloc {
    include!("/repo/sandbox/src/alloc.rs");

    /// (used, max, limit) without disturbing them
    pub fn peek(a: &Alloc) -> (usize, usize, usize) {
        (
            a.used.load(Ordering::SeqCst),
            a.max.load(Ordering::SeqCst),
            a.limit.load(Ordering::SeqCst),
        )
    }
}

use alloc::{peek, Alloc};
use std::alloc::{GlobalAlloc, Layout};
use std::collections::BTreeSet;
use std::sync::atomic::{AtomicUsize, Ordering};
use std::sync::{Arc, Barrier, Mutex};

#[derive(Clone, Copy, Debug, PartialEq)]
enum Op {
    Alloc(usize),
    AllocZeroed(usize),
    Realloc(usize, usize), // live slot (modulo), new size
    Dealloc(usize),
    ResetMax,
}

struct Block {
    ptr: *mut u8,
    size: usize,
    tag: u8,
}

/// Sequential reference model + checks after every operation.
struct Model<'a> {
    a: &'a Alloc,
    live: Vec<Block>,
    usage: usize,
    high: usize, // largest usage reached since the last reset
    limit: usize,
    next_tag: u8,
    check_every_op: bool,
}

const ALIGN: usize = 8;

fn fill(ptr: *mut u8, size: usize, tag: u8) {
    // touch at most the first and last 64 bytes of big blocks (enough to detect a moved/clobbered block)
    unsafe {
        let n = size.min(64);
        for i in 0..n {
            *ptr.add(i) = tag.wrapping_add(i as u8);
        }
        if size >= 128 {
            // tail pattern only when it cannot overlap the head pattern
            for i in 0..n {
                *ptr.add(size - 1 - i) = tag.wrapping_add(0x80).wrapping_add(i as u8);
            }
        }
    }
}

fn verify(ptr: *mut u8, size: usize, tag: u8, upto: usize) -> bool {
    unsafe {
        let n = size.min(64).min(upto);
        for i in 0..n {
            if *ptr.add(i) != tag.wrapping_add(i as u8) {
                return false;
            }
        }
        if size >= 128 && upto >= size {
            for i in 0..size.min(64) {
                if *ptr.add(size - 1 - i) != tag.wrapping_add(0x80).wrapping_add(i as u8) {
                    return false;
                }
            }
        }
    }
    true
}

impl<'a> Model<'a> {
    fn new(a: &'a Alloc, limit: usize) -> Self {
        Model { a, live: vec![], usage: 0, high: 0, limit, next_tag: 1, check_every_op: true }
    }

    fn tag(&mut self) -> u8 {
        self.next_tag = self.next_tag.wrapping_add(37) | 1;
        self.next_tag
    }

    /// Applies one operation to the real allocator and the model; Err(description) on violation.
    fn apply(&mut self, op: Op) -> Result<(), String> {
        match op {
            Op::Alloc(size) | Op::AllocZeroed(size) => {
                if size == 0 {
                    return Ok(());
                }
                let layout = Layout::from_size_align(size, ALIGN).map_err(|e| format!("HARNESS layout: {e}"))?;
                let zeroed = matches!(op, Op::AllocZeroed(_));
                let p = unsafe { if zeroed { self.a.alloc_zeroed(layout) } else { self.a.alloc(layout) } };
                if !p.is_null() {
                    if self.usage + size > self.limit {
                        unsafe { self.a.dealloc(p, layout) };
                        return Err(format!("{op:?} succeeded although usage {} + {} exceeds limit {}", self.usage, size, self.limit));
                    }
                    if size == usize::MAX {
                        unreachable!();
                    }
                    if zeroed {
                        let n = size.min(64);
                        for i in 0..n {
                            if unsafe { *p.add(i) } != 0 {
                                return Err(format!("{op:?} returned non-zero memory"));
                            }
                        }
                    }
                    let tag = self.tag();
                    fill(p, size, tag);
                    self.live.push(Block { ptr: p, size, tag });
                    self.usage += size;
                    self.high = self.high.max(self.usage);
                }
            }
            Op::Realloc(slot, new_size) => {
                if self.live.is_empty() || new_size == 0 {
                    return Ok(());
                }
                let i = slot % self.live.len();
                let (ptr, old, tag) = (self.live[i].ptr, self.live[i].size, self.live[i].tag);
                let layout = Layout::from_size_align(old, ALIGN).unwrap();
                if Layout::from_size_align(new_size, ALIGN).is_err() {
                    return Ok(());
                }
                let p = unsafe { self.a.realloc(ptr, layout, new_size) };
                if p.is_null() {
                    // refused: usage unchanged (checked below), original block intact
                    if !verify(ptr, old, tag, old) {
                        return Err(format!("{op:?} was refused but the original block's contents changed"));
                    }
                } else {
                    // the old pointer is gone whatever we find next: update the model first
                    let kept = verify(p, old, tag, old.min(new_size).min(64));
                    let over = self.usage - old + new_size > self.limit;
                    fill(p, new_size, tag);
                    self.live[i] = Block { ptr: p, size: new_size, tag };
                    self.usage = self.usage - old + new_size;
                    self.high = self.high.max(self.usage);
                    if over {
                        return Err(format!("{op:?} succeeded although resulting usage {} exceeds limit {}", self.usage, self.limit));
                    }
                    if !kept {
                        return Err(format!("{op:?} lost the block's contents"));
                    }
                }
            }
            Op::Dealloc(slot) => {
                if self.live.is_empty() {
                    return Ok(());
                }
                let i = slot % self.live.len();
                let b = self.live.swap_remove(i);
                if !verify(b.ptr, b.size, b.tag, b.size) {
                    return Err(format!("{op:?}: block contents were clobbered while live"));
                }
                unsafe { self.a.dealloc(b.ptr, Layout::from_size_align(b.size, ALIGN).unwrap()) };
                self.usage -= b.size;
            }
            Op::ResetMax => {
                self.a.reset_max();
                self.high = self.usage;
            }
        }
        if self.check_every_op {
            self.check(&format!("{op:?}"))?;
        }
        Ok(())
    }

    fn check(&self, after: &str) -> Result<(), String> {
        let (used, max, _limit) = peek(self.a);
        if used != self.usage {
            return Err(format!("after {after}: tracked usage {used} != total size of live allocations {}", self.usage));
        }
        if used > self.limit {
            return Err(format!("after {after}: usage {used} above limit {}", self.limit));
        }
        if max < self.high {
            return Err(format!("after {after}: reported peak {max} < largest usage reached since reset {}", self.high));
        }
        if max > self.limit {
            return Err(format!("after {after}: reported peak {max} above limit {}: an operation was accepted beyond the limit", self.limit));
        }
        if self.a.get_max() != max {
            return Err(format!("get_max() {} != peak counter {max}", self.a.get_max()));
        }
        Ok(())
    }

    fn drain(&mut self) -> Result<(), String> {
        while !self.live.is_empty() {
            self.apply(Op::Dealloc(0))?;
        }
        self.check("drain")?;
        // usage as the child reports it: reset_max(); get_max()
        self.a.reset_max();
        if self.a.get_max() != 0 {
            return Err(format!("after freeing everything reset_max();get_max() = {}", self.a.get_max()));
        }
        Ok(())
    }
}

struct Rng(u64);
impl Rng {
    fn next(&mut self) -> u64 {
        self.0 ^= self.0 << 13;
        self.0 ^= self.0 >> 7;
        self.0 ^= self.0 << 17;
        self.0
    }
    fn below(&mut self, n: usize) -> usize {
        (self.next() % n as u64) as usize
    }
}

fn sizes_for(limit: usize) -> Vec<usize> {
    if limit == 0 {
        vec![1, 64]
    } else if limit == usize::MAX {
        vec![1, 64, 4096, 1 << 20]
    } else {
        vec![1, 64, limit / 2, limit, limit + 1]
    }
}

fn alphabet(limit: usize, reduced: bool) -> Vec<Op> {
    let sizes = if reduced {
        if limit == usize::MAX { vec![1, 4096] } else if limit == 0 { vec![1] } else { vec![1, limit / 2, limit + 1] }
    } else {
        sizes_for(limit)
    };
    let mut ops = vec![];
    for &s in &sizes {
        ops.push(Op::Alloc(s));
        ops.push(Op::AllocZeroed(s));
    }
    for slot in 0..(if reduced { 1 } else { 2 }) {
        for &s in &sizes {
            ops.push(Op::Realloc(slot, s));
        }
        ops.push(Op::Dealloc(slot));
    }
    ops.push(Op::ResetMax);
    ops
}

#[derive(Default)]
struct Tally {
    histories: u64,
    ops: u64,
    distinct: BTreeSet<u64>,
    violations: Vec<String>,
    refusals: u64,
    samples: Vec<String>,
}

fn hash_hist(h: &[Op], limit: usize) -> u64 {
    let mut x: u64 = 0xcbf29ce484222325 ^ limit as u64;
    for op in h {
        let v = match *op {
            Op::Alloc(s) => 1u64 ^ (s as u64) << 8,
            Op::AllocZeroed(s) => 2 ^ (s as u64) << 8,
            Op::Realloc(a, s) => 3 ^ (a as u64) << 4 ^ (s as u64) << 8,
            Op::Dealloc(a) => 4 ^ (a as u64) << 4,
            Op::ResetMax => 5,
        };
        x = (x ^ v).wrapping_mul(0x100000001b3);
    }
    x
}

fn run_history(limit: usize, hist: &[Op], t: &mut Tally, keep_distinct: bool) {
    let a = Alloc::new(limit);
    let mut m = Model::new(&a, limit);
    t.histories += 1;
    let mut failed = None;
    for (i, op) in hist.iter().enumerate() {
        t.ops += 1;
        let before = m.live.len();
        if let Err(e) = m.apply(*op) {
            failed = Some(format!("limit={limit} history={:?} at step {i}: {e}", hist));
            break;
        }
        if matches!(op, Op::Alloc(_) | Op::AllocZeroed(_)) && m.live.len() == before {
            t.refusals += 1;
        }
    }
    if failed.is_none() {
        if let Err(e) = m.drain() {
            failed = Some(format!("limit={limit} history={:?} at drain: {e}", hist));
        }
    } else {
        // free what the model still holds so sanitizers do not report our own leak
        for b in m.live.drain(..) {
            unsafe { a.dealloc(b.ptr, Layout::from_size_align(b.size, ALIGN).unwrap()) };
        }
    }
    if let Some(f) = failed {
        if t.violations.len() < 20 {
            t.violations.push(f);
        } else {
            t.violations.push(String::new());
            t.violations.pop();
        }
    } else if keep_distinct && hist.len() >= 2 {
        t.distinct.insert(hash_hist(hist, limit));
    }
    if t.samples.len() < 3 && hist.len() >= 3 {
        t.samples.push(format!("limit={limit} {:?}", hist));
    }
}

fn exhaustive(maxlen: usize, extra_len: usize, t: &mut Tally) {
    for &limit in &[0usize, 4096, usize::MAX] {
        let alpha = alphabet(limit, false);
        let mut hist: Vec<Op> = vec![];
        fn rec(limit: usize, alpha: &[Op], hist: &mut Vec<Op>, left: usize, t: &mut Tally) {
            if !hist.is_empty() {
                run_history(limit, hist, t, true);
            }
            if left == 0 {
                return;
            }
            for &op in alpha {
                hist.push(op);
                rec(limit, alpha, hist, left - 1, t);
                hist.pop();
            }
        }
        rec(limit, &alpha, &mut hist, maxlen, t);
        if extra_len > maxlen {
            let alpha = alphabet(limit, true);
            // only histories of exactly the extra lengths (shorter ones were covered above)
            fn rec2(limit: usize, alpha: &[Op], hist: &mut Vec<Op>, target: usize, t: &mut Tally) {
                if hist.len() == target {
                    run_history(limit, hist, t, true);
                    return;
                }
                for &op in alpha {
                    hist.push(op);
                    rec2(limit, alpha, hist, target, t);
                    hist.pop();
                }
            }
            for len in (maxlen + 1)..=extra_len {
                rec2(limit, &alpha, &mut hist, len, t);
            }
        }
    }
}

fn random_histories(n: u64, len: usize, seed: u64, t: &mut Tally) {
    let mut rng = Rng(seed | 1);
    for _ in 0..n {
        let limit = [0usize, 4096, 4096, 65536, usize::MAX][rng.below(5)];
        let sizes = sizes_for(limit);
        let mut hist = Vec::with_capacity(len);
        for _ in 0..len {
            let s = if rng.below(4) == 0 { 1 + rng.below(limit.min(8192).max(1)) } else { sizes[rng.below(sizes.len())] };
            hist.push(match rng.below(10) {
                0..=2 => Op::Alloc(s),
                3 => Op::AllocZeroed(s),
                4..=6 => Op::Realloc(rng.below(8), s),
                7..=8 => Op::Dealloc(rng.below(8)),
                _ => Op::ResetMax,
            });
        }
        run_history(limit, &hist, t, true);
    }
}

/// N threads on one allocator; conservation checked at barriers (quiescent points).
fn threads(nthreads: usize, rounds: usize, ops_per_round: usize, seed: u64, limit: usize, t: &mut Tally) -> Vec<String> {
    let shared = Arc::new(Alloc::new(limit));
    let barrier = Arc::new(Barrier::new(nthreads));
    let live_total = Arc::new(AtomicUsize::new(0)); // written only at barriers
    let own_high = Arc::new(Mutex::new(vec![0usize; nthreads]));
    let problems = Arc::new(Mutex::new(Vec::<String>::new()));
    let fingerprints = Arc::new(Mutex::new(Vec::<usize>::new()));
    let arrival = Arc::new(AtomicUsize::new(0));
    let ops_done = Arc::new(AtomicUsize::new(0));
    let mut handles = vec![];
    for tid in 0..nthreads {
        let (barrier, live_total, own_high, problems, fingerprints, arrival, ops_done) =
            (barrier.clone(), live_total.clone(), own_high.clone(), problems.clone(), fingerprints.clone(), arrival.clone(), ops_done.clone());
        let shared = shared.clone();
        handles.push(std::thread::spawn(move || {
            let a: &Alloc = &shared;
            let mut rng = Rng(seed.wrapping_mul(0x9E3779B97F4A7C15).wrapping_add(tid as u64 * 7919) | 1);
            let mut live: Vec<Block> = vec![];
            let mut mine = 0usize;
            let mut high = 0usize;
            let mut tagc = (tid as u8).wrapping_mul(17) | 1;
            let mut dead = false;
            for round in 0..rounds {
                // a panic inside the allocator (overflow checks on corrupted counters) must not leave
                // the other threads waiting at the barrier: this thread keeps attending, without working
                let worked = if dead { Ok(()) } else { std::panic::catch_unwind(std::panic::AssertUnwindSafe(|| {
                for _ in 0..ops_per_round {
                    let s = [1usize, 16, 64, 200, 1024, 4000][rng.below(6)];
                    match rng.below(10) {
                        0..=3 => {
                            let l = Layout::from_size_align(s, ALIGN).unwrap();
                            let p = unsafe { if rng.below(4) == 0 { a.alloc_zeroed(l) } else { a.alloc(l) } };
                            if !p.is_null() {
                                tagc = tagc.wrapping_add(37) | 1;
                                fill(p, s, tagc);
                                live.push(Block { ptr: p, size: s, tag: tagc });
                                mine += s;
                            }
                        }
                        4..=6 if !live.is_empty() => {
                            let i = rng.below(live.len());
                            let (ptr, old, tag) = (live[i].ptr, live[i].size, live[i].tag);
                            let p = unsafe { a.realloc(ptr, Layout::from_size_align(old, ALIGN).unwrap(), s) };
                            if p.is_null() {
                                if !verify(ptr, old, tag, old) {
                                    problems.lock().unwrap().push(format!("thread {tid}: refused realloc changed the original block"));
                                }
                            } else {
                                if !verify(p, old, tag, old.min(s).min(64)) {
                                    problems.lock().unwrap().push(format!("thread {tid}: realloc {old}->{s} lost contents"));
                                }
                                fill(p, s, tag);
                                live[i] = Block { ptr: p, size: s, tag };
                                mine = mine - old + s;
                            }
                        }
                        7..=9 if !live.is_empty() => {
                            let i = rng.below(live.len());
                            let b = live.swap_remove(i);
                            if !verify(b.ptr, b.size, b.tag, b.size) {
                                problems.lock().unwrap().push(format!("thread {tid}: live block clobbered"));
                            }
                            unsafe { a.dealloc(b.ptr, Layout::from_size_align(b.size, ALIGN).unwrap()) };
                            mine -= b.size;
                        }
                        _ => {}
                    }
                    high = high.max(mine);
                    ops_done.fetch_add(1, Ordering::Relaxed);
                }
                })) };
                if worked.is_err() {
                    dead = true;
                    problems.lock().unwrap_or_else(|e| e.into_inner()).push(format!("thread {tid}: panic inside the allocator workload in round {round} (arithmetic overflow on the counters?)"));
                }
                // ---- quiescent point
                let order = arrival.fetch_add(1, Ordering::SeqCst);
                if order % nthreads == 0 {
                    fingerprints.lock().unwrap().push(tid);
                }
                own_high.lock().unwrap()[tid] = high;
                live_total.fetch_add(mine, Ordering::SeqCst);
                barrier.wait();
                if tid == 0 {
                    let (used, max, lim) = peek(a);
                    let total = live_total.load(Ordering::SeqCst);
                    if used != total {
                        problems.lock().unwrap().push(format!("round {round}: tracked usage {used} != sum of live sizes {total} ({nthreads} threads)"));
                    }
                    if used > lim {
                        problems.lock().unwrap().push(format!("round {round}: usage {used} above limit {lim}"));
                    }
                    if max > lim {
                        problems.lock().unwrap().push(format!("round {round}: reported peak {max} above limit {lim}: an operation was accepted beyond the limit"));
                    }
                    let hi = own_high.lock().unwrap().iter().cloned().max().unwrap_or(0).max(total);
                    if max < hi {
                        problems.lock().unwrap().push(format!("round {round}: reported peak {max} < a usage that was certainly reached {hi}"));
                    }
                    live_total.store(0, Ordering::SeqCst);
                    if round % 3 == 2 {
                        a.reset_max();
                        let (u2, m2, _) = peek(a);
                        if m2 != u2 {
                            problems.lock().unwrap().push(format!("round {round}: after reset_max peak {m2} != usage {u2}"));
                        }
                    }
                }
                barrier.wait();
                if round % 3 == 2 {
                    high = mine; // peak was reset at this quiescent point
                }
            }
            for b in live.drain(..) {
                unsafe { a.dealloc(b.ptr, Layout::from_size_align(b.size, ALIGN).unwrap()) };
            }
        }));
    }
    let mut panicked = 0;
    for h in handles {
        if h.join().is_err() {
            panicked += 1;
        }
    }
    let (used, _, _) = peek(&shared);
    let mut probs = problems.lock().map(|g| g.clone()).unwrap_or_else(|e| e.into_inner().clone());
    if panicked > 0 {
        // with overflow checks on, corrupted counters show up as arithmetic panics inside alloc.rs
        probs.push(format!("{panicked} worker thread(s) panicked inside the allocator workload (arithmetic overflow on the counters?)"));
        return probs;
    }
    if used != 0 {
        probs.push(format!("after all threads freed everything usage is {used}"));
    }
    t.ops += ops_done.load(Ordering::Relaxed) as u64;
    t.histories += 1;
    // interleaving fingerprint: which thread reached each barrier first
    let fp = fingerprints.lock().unwrap().clone();
    let mut x: u64 = 0xcbf29ce484222325;
    for v in &fp {
        x = (x ^ *v as u64).wrapping_mul(0x100000001b3);
    }
    t.distinct.insert(x ^ ((nthreads as u64) << 56));
    probs
}

fn main() {
    let args: Vec<String> = std::env::args().collect();
    let get = |k: &str, d: u64| -> u64 {
        args.iter().position(|a| a == k).and_then(|i| args.get(i + 1)).and_then(|v| v.parse().ok()).unwrap_or(d)
    };
    let mode = args.get(1).map(|s| s.as_str()).unwrap_or("all");
    let seed = get("--seed", 1);
    let mut t = Tally::default();
    let mut thread_runs = 0u64;
    let mut fp_distinct = 0usize;
    if mode == "all" || mode == "exhaustive" {
        exhaustive(get("--maxlen", 3) as usize, get("--extra-len", 0) as usize, &mut t);
    }
    if mode == "all" || mode == "random" {
        random_histories(get("--random", 1000), get("--len", 200) as usize, seed, &mut t);
    }
    let seq_distinct = t.distinct.len();
    if mode == "all" || mode == "threads" {
        let rounds = get("--rounds", 20) as usize;
        let per = get("--ops-per-round", 200) as usize;
        let reps = get("--thread-reps", 4);
        let maxthreads = get("--max-threads", 16) as usize;
        let mut counts: Vec<usize> = vec![2, 3, 4, 8, 16].into_iter().filter(|&n| n <= maxthreads).collect();
        if counts.is_empty() {
            counts.push(2);
        }
        for rep in 0..reps {
            for &n in &counts {
                for &limit in &[usize::MAX, 1 << 16, 6000] {
                    let probs = threads(n, rounds, per, seed.wrapping_add(rep * 1000 + n as u64), limit, &mut t);
                    thread_runs += 1;
                    for p in probs {
                        if t.violations.len() < 20 {
                            t.violations.push(format!("threads={n} limit={limit}: {p}"));
                        }
                    }
                }
            }
        }
        fp_distinct = t.distinct.len() - seq_distinct;
    }
    let viol: Vec<String> = t.violations.iter().map(|v| format!("\"{}\"", v.replace('\\', "\\\\").replace('"', "'"))).collect();
    let samples: Vec<String> = t.samples.iter().map(|v| format!("\"{}\"", v.replace('"', "'"))).collect();
    println!(
        "{{\"histories\": {}, \"ops\": {}, \"distinct_sequential_histories\": {}, \"thread_runs\": {}, \"distinct_interleaving_fingerprints\": {}, \"refused_allocations\": {}, \"violations\": [{}], \"samples\": [{}]}}",
        t.histories, t.ops, seq_distinct, thread_runs, fp_distinct, t.refusals, viol.join(", "), samples.join(", ")
    );
    std::process::exit(if t.violations.is_empty() { 0 } else { 1 });
}
