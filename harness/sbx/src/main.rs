//! sbx-svc: a test Service for rink-sandbox plus a parent-side driver (property C18).
//!
//! Parent mode: reads one history (JSON: config + list of steps) on stdin, sends each request
//! through the real `Sandbox::execute`, and records call/return events at the client boundary
//! as JSON lines on stdout.  No verdict is taken here; the Python monitor owns the oracle.
//! Child mode (`--child`): `rink_sandbox::become_child` with the real counting allocator.

use rink_sandbox::{Alloc, Sandbox, Service};
use serde_derive::{Deserialize, Serialize};
use std::{env, ffi::OsString, io::Error as IoError, io::Read, time::Duration, time::Instant};

#[global_allocator]
static GLOBAL: Alloc = Alloc::new(usize::MAX);

#[derive(Serialize, Deserialize, Clone, Debug)]
struct Config {
    memory_limit: usize,
    timeout_ms: u64,
}

#[derive(Serialize, Deserialize, Debug)]
enum Req {
    Add(u64, i64, i64),
    Panic(u64),
    Sleep(u64, u64),
    Alloc(u64, usize),
    Exit(u64),
    Payload(u64, Vec<u8>),
}

#[derive(Serialize, Deserialize, Debug)]
struct Res {
    id: u64,
    pid: u32,
    value: i64,
}

struct Svc;

impl Service for Svc {
    type Req = Req;
    type Res = Res;
    type Config = Config;

    fn args(_config: &Config) -> Vec<OsString> {
        vec!["--child".into()]
    }

    fn timeout(config: &Config) -> Duration {
        Duration::from_millis(config.timeout_ms)
    }

    fn create(config: Config) -> Result<Self, IoError> {
        GLOBAL.set_limit(config.memory_limit);
        Ok(Svc)
    }

    fn handle(&self, req: Req) -> Res {
        let pid = std::process::id();
        match req {
            Req::Add(id, a, b) => Res { id, pid, value: a + b },
            Req::Panic(id) => panic!("deliberate panic in request {id}"),
            Req::Sleep(id, ms) => {
                std::thread::sleep(Duration::from_millis(ms));
                Res { id, pid, value: 0 }
            }
            Req::Alloc(id, bytes) => {
                let v: Vec<u8> = vec![1u8; bytes];
                Res { id, pid, value: v.iter().map(|&x| x as i64).sum() }
            }
            Req::Exit(_) => std::process::exit(3),
            Req::Payload(id, data) => Res { id, pid, value: data.len() as i64 },
        }
    }
}

#[derive(Deserialize)]
struct Step {
    kind: String,
    #[serde(default)]
    gap_ms: u64,
    #[serde(default)]
    a: i64,
    #[serde(default)]
    b: i64,
    #[serde(default)]
    arg: u64,
}

#[derive(Deserialize)]
struct History {
    config: Config,
    watchdog_ms: u64,
    steps: Vec<Step>,
}

fn error_kind(e: &rink_sandbox::Error) -> &'static str {
    use rink_sandbox::Error::*;
    match e {
        Io(_) => "Io",
        Recv(_) => "Recv",
        Send(_) => "Send",
        Timeout(_) => "Timeout",
        Bincode(_) => "Bincode",
        Panic(_) => "Panic",
        InitFailure(_) => "InitFailure",
        ReadFailed(_) => "ReadFailed",
        WriteFailed(_) => "WriteFailed",
        HandshakeFailure(_) => "HandshakeFailure",
        Crashed => "Crashed",
        Interrupted => "Interrupted",
        _ => "Other",
    }
}

#[async_std::main]
async fn main() -> Result<(), IoError> {
    let args = env::args().collect::<Vec<_>>();
    if args.len() > 1 && args[1] == "--child" {
        rink_sandbox::become_child::<Svc, _>(&GLOBAL);
    }
    let mut input = String::new();
    std::io::stdin().read_to_string(&mut input)?;
    let hist: History = serde_json::from_str(&input).map_err(|e| IoError::new(std::io::ErrorKind::Other, e))?;
    let t0 = Instant::now();
    let sandbox = Sandbox::<Svc>::new(hist.config.clone()).await?;
    for (i, step) in hist.steps.iter().enumerate() {
        if step.gap_ms > 0 {
            async_std::task::sleep(Duration::from_millis(step.gap_ms)).await;
        }
        let id = (i as u64 + 1) * 1000 + 7;
        let req = match step.kind.as_str() {
            "add" => Req::Add(id, step.a, step.b),
            "panic" => Req::Panic(id),
            "sleep" => Req::Sleep(id, step.arg),
            "alloc" => Req::Alloc(id, step.arg as usize),
            "exit" => Req::Exit(id),
            "payload" => Req::Payload(id, vec![7u8; step.arg as usize]),
            other => {
                println!("{}", serde_json::json!({"harness_error": format!("unknown step kind {other}")}));
                return Ok(());
            }
        };
        let call = t0.elapsed().as_micros() as u64;
        // record the call event before invoking
        println!("{}", serde_json::json!({"event": "call", "i": i, "kind": step.kind, "id": id, "t_us": call}));
        let res = async_std::future::timeout(Duration::from_millis(hist.watchdog_ms), sandbox.execute(req)).await;
        let ret = t0.elapsed().as_micros() as u64;
        let out = match res {
            Err(_) => serde_json::json!({"event": "return", "i": i, "t_us": ret, "outcome": "no_reply"}),
            Ok(Ok(r)) => serde_json::json!({"event": "return", "i": i, "t_us": ret, "outcome": "ok",
                "id": r.result.id, "pid": r.result.pid, "value": r.result.value, "memory_used": r.memory_used}),
            Ok(Err(e)) => serde_json::json!({"event": "return", "i": i, "t_us": ret, "outcome": "err",
                "error": error_kind(&e), "text": e.to_string().chars().take(300).collect::<String>()}),
        };
        println!("{}", out);
        if out["outcome"] == "no_reply" {
            // the operation stays open: nothing more can be learnt from this sandbox instance
            println!("{}", serde_json::json!({"event": "abandoned", "after": i}));
            break;
        }
    }
    println!("{}", serde_json::json!({"event": "end"}));
    std::process::exit(0);
}
