"""C16 — substance properties scale linearly and invert; formula molar masses are exact sums.

Reference-model monitor, exhaustive over the substances and properties of the loaded database:
property data come from the registry dump, arithmetic is redone in exact fractions, replies are
read back with the C05/C06 reader."""
import random
import re
import sys
from fractions import Fraction

from lib import refexpr as R
from lib import parts as P
from lib.common import Part, Run, panic_sig
from lib.probe import shard_map, split, worker_probe, nproc
from lib.registry import Registry, num_val, dims_key, render_name, KEYWORDS, FUNCS, ATTRS

_REG = None


def get_reg(probe):
    global _REG
    if _REG is None:
        d = probe.request({"op": "dump", "ctx": probe.ctx("bundled")}, timeout=120)
        _REG = Registry(d["dump"])
    return _REG


def lit(fr):
    if fr.denominator == 1:
        return "(%d)" % fr.numerator if fr >= 0 else "(-%d)" % -fr.numerator
    if fr < 0:
        return "(-%d/%d)" % (-fr.numerator, fr.denominator)
    return "(%d/%d)" % (fr.numerator, fr.denominator)


def base_product(dims):
    """text of a product of base units with the given exponent vector (value exactly 1)"""
    num = " ".join(("%s^%d" % (render_name(b), e) if e != 1 else render_name(b)) for b, e in sorted(dims.items()) if e > 0)
    den = " ".join(("%s^%d" % (render_name(b), -e) if e != -1 else render_name(b)) for b, e in sorted(dims.items()) if e < 0)
    s = num or "1"
    if den:
        s = "(%s / (%s))" % (s, den)
    elif " " in s:
        s = "(%s)" % s
    return s


def rand_amount(rng):
    r = rng.random()
    if r < 0.2:
        return Fraction(rng.choice([1, 2, 3, 10, 1000]))
    if r < 0.5:
        return Fraction(rng.randrange(1, 10 ** 6), rng.randrange(1, 10 ** 4))
    if r < 0.7:
        return Fraction(10) ** rng.randrange(-20, 21) * rng.randrange(1, 100)
    if r < 0.85:
        return -Fraction(rng.randrange(1, 10 ** 5), rng.randrange(1, 100))
    return Fraction(rng.getrandbits(200) + 1, rng.getrandbits(100) + 1)


def number_reply(r):
    rep = r.get("r") or {}
    kind = rep.get("kind")
    np_ = rep["value"] if kind in ("number", "conversion") else (rep["raw"] if kind == "duration" else None)
    if np_ is None:
        return None, rep
    raw = np_["raw"]
    if raw is None or raw.get("f") or "n" not in raw:
        return "float", rep
    return (Fraction(int(raw["n"]), int(raw["d"])), raw["u"], np_), rep


def ask(part, probe, q):
    part.evaluations += 1
    r = probe.eval(q, timeout=30, spans=False, json=False)
    if "timeout" in r or "died" in r:
        part.inconclusive_event("no reply", {"query": q[:300]})
        return None
    if r.get("panics"):
        p = r["panics"][0]
        part.violation(panic_sig(p), {"query": q, "panic": p}, "panic in a substance query")
        return None
    return r


def unambiguous(sub):
    names = []
    for p in sub["props"].values():
        names += [p["input_name"], p["output_name"]]
    out = {}
    for k, p in sub["props"].items():
        ok = names.count(p["input_name"]) == 1 and names.count(p["output_name"]) == 1
        # const properties name their output like the property itself; that single use is fine
        out[k] = ok
    return out


def prop_name_ok(n):
    return render_name(n) == n and n not in KEYWORDS and n not in FUNCS and n not in ATTRS


def expect_eq(part, what, q, r, want_v, want_d, sig_extra=None):
    got, rep = number_reply(r)
    wit = {"query": q[:400], "reply": (r.get("text") or "")[:250]}
    if got is None or got == "float":
        part.violation(dict({"kind": what + "_no_exact_number", "got": rep.get("kind"),
                             "message": _norm(rep.get("message"))}, **(sig_extra or {})), wit,
                       "property query did not return an exact number")
        return None
    if got[0] != want_v or dims_key(got[1]) != dims_key(want_d):
        part.violation(dict({"kind": what + "_wrong"}, **(sig_extra or {})),
                       dict(wit, expected=str(want_v), expected_dims=want_d, got=str(got[0]), got_dims=got[1]),
                       "property value is not output*(a/input)")
        return None
    return got


def work_substances(idx, chunk, seed, reps):
    probe = worker_probe()
    reg = get_reg(probe)
    part = Part()
    rng = random.Random((seed << 7) ^ (idx * 7877 + 2))
    classes = reg.dim_classes()
    ckeys = sorted(k for k in classes if k)
    for sname in chunk:
        sub = reg.substances[sname]
        rs = render_name(sname)
        amt = num_val(sub["amount"])
        if amt.f or amt.d or amt.v != 1:
            part.count("derived_substance_with_own_amount_skipped")   # e.g. lusec = liter micron Hg / s
            continue
        if rs is None or sname in KEYWORDS:
            part.count("substance_name_unrenderable")
            continue
        # a substance is only queried under a name rink resolves to it (C07's rule may shadow it)
        r = ask(part, probe, rs)
        if r is None:
            continue
        rep0 = r.get("r") or {}
        if rep0.get("kind") != "substance" or rep0.get("name") != sub["pname"]:
            part.count("substance_name_shadowed")
            continue
        base_props = {p["name"]: p["value"] for p in rep0["properties"]}
        # the displayed parts of the plain reply obey the C06 law
        for p in rep0["properties"]:
            try:
                pr = P.check_parts(p["value"], reg)
                for kind, detail in pr:
                    part.violation({"kind": kind, "where": "substance.reply"},
                                   {"query": rs, "property": p["name"], "detail": detail}, "")
            except (P.Unjudgeable, R.OutOfScope):
                part.count("display_unjudgeable")
        unamb = unambiguous(sub)
        for pname, prop in sorted(sub["props"].items()):
            i, o = num_val(prop["input"]), num_val(prop["output"])
            if i.f or o.f or i.v == 0:
                part.count("property_skipped_float_or_zero")
                continue
            if not prop_name_ok(pname):
                part.count("property_name_unrenderable")
                continue
            ratio = R.Val(o.v / i.v, R.dmul(o.d, i.d, -1))
            for _ in range(reps):
                # A1: dimensionless amount k: looked up by property name, scales linearly
                k = rand_amount(rng)
                form = rng.choice(["%s %s", "%s * %s", "(%s / %s)"])
                if form == "(%s / %s)":
                    q = "%s of (%s / %s)" % (pname, rs, lit(1 / k))
                else:
                    q = "%s of (%s)" % (pname, form % (lit(k), rs))
                r = ask(part, probe, q)
                if r is not None and expect_eq(part, "property_by_name", q, r, k * ratio.v, ratio.d):
                    part.count("by_name_ok")
                    part.seen("%s|%s|name" % (sname, pname))
                    part.sample({"query": q[:120], "value": str(k * ratio.v)[:50]})
            if not unamb[pname]:
                part.count("property_ambiguous_skipped")
                continue
            if not i.d:
                continue      # const property: no dimensioned input to ask with
            on, inn = prop["output_name"], prop["input_name"]
            if not (prop_name_ok(on) and prop_name_ok(inn)):
                part.count("property_name_unrenderable")
                continue
            for _ in range(reps):
                # A2: amount a in the input's dimensionality -> output * (a / input)
                a = rand_amount(rng)
                q = "%s of (%s %s %s)" % (on, lit(a), base_product(i.d), rs)
                r = ask(part, probe, q)
                if r is None:
                    continue
                want = o.v * (a / i.v)
                got = expect_eq(part, "output_of_amount", q, r, want, o.d)
                if got is None:
                    continue
                part.count("forward_ok")
                part.seen("%s|%s|forward" % (sname, pname))
                # A3: asking for the input of that result returns a
                if o.d and want != 0:
                    q2 = "%s of (%s %s %s)" % (inn, lit(want), base_product(o.d), rs)
                    r2 = ask(part, probe, q2)
                    if r2 is not None and expect_eq(part, "input_of_result", q2, r2, a, i.d):
                        part.count("inverse_ok")
                        part.seen("%s|%s|inverse" % (sname, pname))
                # A2z: an amount of zero gives zero (not a division by zero), in both directions
                if rng.random() < 0.3:
                    qz = "%s of (0 %s %s)" % (on, base_product(i.d), rs)
                    rz = ask(part, probe, qz)
                    if rz is not None and expect_eq(part, "output_of_amount", qz, rz, Fraction(0), o.d, {"amount": "zero"}):
                        part.count("zero_amount_ok")
                    if o.d:
                        qz2 = "%s of (0 %s %s)" % (inn, base_product(o.d), rs)
                        rz2 = ask(part, probe, qz2)
                        if rz2 is not None and expect_eq(part, "input_of_result", qz2, rz2, Fraction(0), i.d, {"amount": "zero"}):
                            part.count("zero_amount_ok")
                # A4c: a plain number where the property needs a dimensioned amount is a wrong dimensionality as well
                if rng.random() < 0.3 and on not in sub["props"] and inn not in sub["props"]:
                    qc = "%s of (%s %s)" % (on, lit(abs(a) + 1), rs)
                    rc = ask(part, probe, qc)
                    if rc is not None:
                        kindc = (rc.get("r") or {}).get("kind", "")
                        if kindc in ("number", "duration", "conversion", "substance"):
                            part.violation({"kind": "wrong_dimension_amount_accepted", "case": "plain number"},
                                           {"query": qc, "reply": (rc.get("text") or "")[:250]}, "")
                        elif kindc != "err_conformance":
                            part.violation({"kind": "wrong_dimension_not_conformance_error", "got": kindc, "case": "plain number",
                                            "message": _norm((rc.get("r") or {}).get("message"))},
                                           {"query": qc, "reply": (rc.get("text") or "")[:250]},
                                           "a plain number as the amount of a dimensioned property is not refused with a conformance error")
                        else:
                            part.count("plain_number_amount_refused")
                # A7: the plain reply to `<amount> <substance>` reports the same property values (as printed)
                if a > 0:
                    for (amt_d, amt_1, shown_name, shown_v, shown_d) in ((i.d, i.v, on, o.v, o.d), (o.d, o.v, inn, i.v, i.d)):
                        if not amt_d or not shown_d or amt_1 == 0 or dims_key(o.d) == dims_key(i.d):
                            continue
                        q7 = "%s %s %s" % (lit(a), base_product(amt_d), rs)
                        r7 = ask(part, probe, q7)
                        if r7 is None:
                            continue
                        rep7 = r7.get("r") or {}
                        if rep7.get("kind") != "substance":
                            part.count("amount_reply_other:%s" % rep7.get("kind"))
                            continue
                        for pr_ in rep7["properties"]:
                            if pr_["name"] != shown_name:
                                continue
                            try:
                                problems = P.check_parts(pr_["value"], reg, quantity=shown_v * (a / amt_1), qdims=shown_d)
                            except (P.Unjudgeable, R.OutOfScope):
                                part.count("display_unjudgeable")
                                continue
                            for kind7, detail in problems:
                                part.violation({"kind": "amount_reply_" + kind7, "side": "output" if shown_name == on else "input"},
                                               {"query": q7, "property": shown_name, "reply": (r7.get("text") or "")[:300], "detail": detail},
                                               "the plain reply to `<amount> <substance>` shows a property value other than output*(a/input)")
                            if not problems:
                                part.count("amount_reply_ok")
                # A4b: an amount that already has the dimensionality of the side being asked for is a wrong amount too
                if o.d and dims_key(o.d) != dims_key(i.d):
                    q4 = "%s of (%s %s %s)" % (on, lit(a), base_product(o.d), rs)
                    r4 = ask(part, probe, q4)
                    if r4 is not None:
                        kind4 = (r4.get("r") or {}).get("kind", "")
                        if kind4 in ("number", "duration", "conversion", "substance"):
                            part.violation({"kind": "wrong_dimension_amount_accepted", "case": "amount has the asked side's dimensionality"},
                                           {"query": q4, "reply": (r4.get("text") or "")[:250]},
                                           "asking for the output of an amount that is itself an output was answered")
                        elif kind4 == "err_conformance":
                            part.count("wrong_side_refused")
                # A4: wrong dimensionality is refused with a conformance error
                wk = rng.choice(ckeys)
                if wk != dims_key(i.d):
                    wu = rng.choice(classes[wk])
                    if render_name(wu) and wu not in KEYWORDS:
                        q3 = "%s of (%s %s %s)" % (on, lit(a), render_name(wu), rs)
                        r3 = ask(part, probe, q3)
                        if r3 is not None:
                            kind = (r3.get("r") or {}).get("kind", "")
                            if kind in ("number", "duration", "conversion", "substance"):
                                part.violation({"kind": "wrong_dimension_amount_accepted"},
                                               {"query": q3, "reply": (r3.get("text") or "")[:250]},
                                               "an amount of the wrong dimensionality was accepted")
                            elif kind != "err_conformance":
                                part.violation({"kind": "wrong_dimension_not_conformance_error", "got": kind,
                                                "message": _norm((r3.get("r") or {}).get("message"))},
                                               {"query": q3, "reply": (r3.get("text") or "")[:250]}, "")
                            else:
                                part.count("wrong_dimension_refused")
        # A5: k * substance / substance * k / substance / k scale every reported property by k
        k = Fraction(rng.randrange(2, 50), rng.randrange(1, 7))
        for q, f in (("%s %s" % (lit(k), rs), k), ("%s * %s" % (rs, lit(k)), k), ("%s / %s" % (rs, lit(k)), 1 / k)):
            r = ask(part, probe, q)
            if r is None:
                continue
            rep = r.get("r") or {}
            if rep.get("kind") != "substance":
                part.violation({"kind": "scaled_substance_not_a_substance", "got": rep.get("kind")},
                               {"query": q, "reply": (r.get("text") or "")[:250]}, "")
                continue
            for p in rep["properties"]:
                b = base_props.get(p["name"])
                if b is None or b["raw"] is None or p["value"]["raw"] is None or b["raw"].get("f") or p["value"]["raw"].get("f"):
                    continue
                try:
                    # raw values of substance replies are in display units: read them like printed units
                    bu, _ = P.unit_product(reg, [(kk, int(pp)) for kk, pp in b["raw"]["u"].items()])
                    pu, _ = P.unit_product(reg, [(kk, int(pp)) for kk, pp in p["value"]["raw"]["u"].items()])
                except (P.Unjudgeable, R.OutOfScope):
                    part.count("display_unjudgeable")
                    continue
                bv = Fraction(int(b["raw"]["n"]), int(b["raw"]["d"])) * bu
                pv = Fraction(int(p["value"]["raw"]["n"]), int(p["value"]["raw"]["d"])) * pu
                meta = sub["props"].get(p["name"])
                is_ratio = bool(meta and meta["input"]["u"])
                if pv != bv * f:
                    part.violation({"kind": "reported_property_not_scaled", "ratio_property": is_ratio,
                                    "reported_unscaled": pv == bv},
                                   {"query": q, "property": p["name"], "base": str(bv), "scaled": str(pv), "factor": str(f)},
                                   "multiplying a substance by k does not scale this reported property by k")
                else:
                    part.count("reply_property_scaled_ok")
        # A6: `substance -> k unit`: every property shown (numeral x constant x units, read as printed) is still the
        # property of the substance (or its reciprocal when the conversion turns the ratio over)
        for pname, prop in sorted(sub["props"].items()):
            b = base_props.get(pname)
            if b is None or b["raw"] is None or b["raw"].get("f"):
                continue
            try:
                bu, bd = P.unit_product(reg, [(kk, int(pp)) for kk, pp in b["raw"]["u"].items()])
            except (P.Unjudgeable, R.OutOfScope):
                continue
            bv = Fraction(int(b["raw"]["n"]), int(b["raw"]["d"])) * bu
            if bv == 0:
                continue
            for side in ("output", "input"):
                sd = num_val(prop[side])
                if sd.f or not sd.d:
                    continue
                names = [n for n in classes.get(dims_key(sd.d), []) if render_name(n) and n not in KEYWORDS
                         and not reg.lookup_exact(n).f and reg.lookup_exact(n).v > 0]
                if not names:
                    continue
                un = render_name(rng.choice(names))
                kq = rng.choice(["2 %s", "10 %s", "%s/2", "2|3 %s", "%s", "7 %s", "%s/10"]) % un
                q = "%s -> %s" % (rs, kq)
                r = ask(part, probe, q)
                if r is None:
                    continue
                rep = r.get("r") or {}
                if rep.get("kind") != "substance":
                    part.count("substance_conversion_other_reply:%s" % rep.get("kind"))
                    continue
                for pr_ in rep["properties"]:
                    if pr_["name"] != pname:
                        continue
                    try:
                        units = P.structured_units(pr_["value"])
                        _, ud = P.unit_product(reg, units)
                        if dims_key(ud) == dims_key(bd):
                            want, wd = bv, bd
                        elif dims_key(ud) == dims_key(R.dpow(bd, -1)):
                            want, wd = 1 / bv, R.dpow(bd, -1)
                        else:
                            part.violation({"kind": "converted_property_dimensionality_differs"},
                                           {"query": q, "property": pname, "shown": ud, "property_dims": bd}, "")
                            continue
                        problems = P.check_parts(pr_["value"], reg, quantity=want, qdims=wd)
                        for kind, detail in problems:
                            part.violation({"kind": "converted_property_" + kind, "target_form": kq.replace(un, "u")},
                                           {"query": q, "property": pname, "reply": (r.get("text") or "")[:300], "detail": detail},
                                           "a property shown by `substance -> constant unit` is not the substance's property")
                        if not problems:
                            part.count("converted_property_ok")
                    except (P.Unjudgeable, R.OutOfScope):
                        part.count("display_unjudgeable")
    return part.export()


def work_formulas(idx, _chunk, seed, n):
    probe = worker_probe()
    reg = get_reg(probe)
    part = Part()
    rng = random.Random((seed << 6) ^ (idx * 4099 + 9))
    mm = {}
    for sym, sname in reg.symbols.items():
        sub = reg.substances.get(sname)
        if not sub or "molar_mass" not in sub["props"]:
            continue
        p = sub["props"]["molar_mass"]
        i, o = num_val(p["input"]), num_val(p["output"])
        if i.f or o.f or i.v == 0:
            continue
        if re.fullmatch(r"[A-Z][a-z]?", sym):
            mm[sym] = R.Val(o.v / i.v, R.dmul(o.d, i.d, -1))
    syms = sorted(mm)
    part.counters["element_symbols_with_molar_mass"] = len(syms)
    for _ in range(n):
        r0 = rng.random()
        if r0 < 0.75:
            k = rng.randrange(1, 6)
            parts_ = []
            for _ in range(k):
                s = rng.choice(syms)
                c = rng.choice([1, 1, 2, 3, 10, 12, 2 ** 32 - 1, rng.randrange(1, 10 ** 6)])
                parts_.append((s, c, rng.random() < 0.5))
            name = "".join(s + (str(c) if (c != 1 or explicit) else "") for s, c, explicit in parts_)
            want = sum((mm[s].v * c for s, c, _ in parts_), Fraction(0))
            kind = "formula"
        else:
            base = rng.choice(syms) + rng.choice(["", "2", "12"]) + rng.choice(syms)
            name = rng.choice([base.lower(), base + "x", "Xx" + base, base + "_2", base + "2x", "Q" + base,
                               base + "99999999999", base + str(2 ** 32), "J" + rng.choice(["", "2"]), base[0] + "j" + base,
                               # counts nobody writes: zero, leading zeros
                               base + "0", base + "02", base + "00", rng.choice(syms) + "0" + rng.choice(syms), base + "0000000001"])
            kind = "near-miss"
            want = None
        # what the name denotes by rink's own documented resolution order: a unit, a substance, else a formula
        v, how = reg.lookup(name)
        if render_name(name) != name:
            part.count("name_not_a_plain_identifier")       # e.g. `UK` is an attribute word to the parser
            continue
        if v is not None or name in reg.substances or name in reg.symbols or name in KEYWORDS:
            part.count("name_is_a_unit_or_substance")
            continue
        if kind == "near-miss":
            # is it, despite the mutation, still a well-formed formula of known symbols?
            toks = re.findall(r"[A-Z][a-z]?|\d+|.", name)
            wf, total, i2 = True, Fraction(0), 0
            while i2 < len(toks):
                t = toks[i2]
                if t in mm:
                    c = 1
                    if i2 + 1 < len(toks) and toks[i2 + 1].isdigit():
                        if toks[i2 + 1].startswith("0"):
                            wf = False          # a count of zero / with leading zeros is not a well-formed count
                            break
                        c = int(toks[i2 + 1])
                        i2 += 1
                    total += mm[t].v * c
                else:
                    wf = False
                    break
                i2 += 1
            if wf and all(int(t) < 2 ** 32 for t in toks if t.isdigit()):
                want, kind = total, "formula"
        q = "molar_mass of %s" % name
        r = ask(part, probe, q)
        if r is None:
            continue
        rep = r.get("r") or {}
        wit = {"query": q, "reply": (r.get("text") or "")[:250]}
        if kind == "formula":
            got, _ = number_reply(r)
            if got is None or got == "float":
                part.violation({"kind": "formula_not_recognised", "got": rep.get("kind")}, wit,
                               "a well-formed formula of known symbols was not treated as one")
            elif got[0] != want or dims_key(got[1]) != dims_key({"kg": 1, "mol": -1}):
                part.violation({"kind": "formula_molar_mass_wrong"}, dict(wit, expected=str(want), got=str(got[0])),
                               "molar mass is not the count-weighted sum of the elements' molar masses")
            else:
                part.count("formula_ok")
                part.seen("formula|" + name)
                part.sample({"query": q, "molar_mass_kg_per_mol": str(want)[:60]})
        else:
            if rep.get("kind") in ("number", "substance", "conversion", "duration"):
                part.violation({"kind": "malformed_formula_accepted"}, wit,
                               "text that is not a well-formed formula of known symbols was treated as one")
            else:
                part.count("near_miss_refused")
                part.seen("nearmiss|" + name)
    return part.export()


def _norm(m):
    m = re.sub(r"<[^>]*>", "<..>", m or "")
    return re.sub(r"\d+", "N", m)[:80]


def run(tier, seed):
    run = Run("C16", tier, seed, "exploration", floor=300)
    run.rule = ("every substance of the database x every property: by-name lookup with dimensionless multiples (k S, S*k, S/k), "
                "output of an amount given in the input's dimensionality (as a product of base units), the inverse query, an "
                "amount of another dimensionality, of the asked side's own dimensionality or a plain number (must be a conformance "
                "error), zero amounts, scaled substance replies, the plain reply to `<amount> substance` and `substance -> k unit` "
                "conversions read back as printed; chemical formulas "
                "over the element symbols with counts up to 2^32-1 and near-miss strings (unknown symbols, lower case, counts of zero, leading zeros, 2^32); non-trivial = distinct (substance, "
                "property, direction) and distinct formula/near-miss names judged")
    run.assumptions = ["a property is unambiguous iff its input and output names each occur once among all names of its substance",
                       "a substance is queried only under a name rink resolves to it; names that are units by C07's rule are skipped",
                       "a formula exposes molar_mass only (input amount = 1)"]
    probe = worker_probe()
    reg = get_reg(probe)
    names = sorted(reg.substances)
    run.exhaustive = True
    run.extra_cov["substances"] = len(names)
    run.extra_cov["properties"] = sum(len(s["props"]) for s in reg.substances.values())
    reps = 2 if tier == "quick" else 300
    for res in shard_map(work_substances, split(names, nproc() * 2), (seed, reps)):
        run.merge(res)
    n = 3000 if tier == "quick" else 1000000
    per = nproc()
    for res in shard_map(work_formulas, [None] * per, (seed, n // per + 1)):
        run.merge(res)
    return run.finish()


if __name__ == "__main__":
    from lib.common import tier_seed
    a = tier_seed()
    sys.exit(run(a.tier, a.seed))
