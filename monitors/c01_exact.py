"""C01 — exact arithmetic.  Reference-model monitor: every pure-number query is evaluated by
the real rink (through the probe) and by an independent exact evaluator; the replies are
judged event by event."""
import itertools
import random
import sys
from fractions import Fraction

from lib import refexpr as R
from lib.common import Part, Run, panic_sig
from lib.probe import shard_map, split, worker_probe, nproc

BINOPS = ["+", "-", "*", "/", "|", "juxt", "^", "**", "mod", "<<", ">>", "and", "or", "xor"]
SMALL_ALPHABET = ["0", "1", "2", "3", "7", "10", "-1", "1.5", "0x10", "1|3"]


# ---------------------------------------------------------------- tree generation
# tree: ("lit", text, Fraction) | ("neg"|"pos", t) | ("bin", op, l, r) | ("par", t)

def rand_digits(rng, n):
    return "".join(rng.choice("0123456789") for _ in range(n))


def sepify(rng, ds):
    """Insert digit separators between digits (documented: '_' and U+2009)."""
    if len(ds) < 2 or rng.random() < 0.6:
        return ds
    out = [ds[0]]
    for c in ds[1:]:
        if rng.random() < 0.25:
            out.append(rng.choice(["_", " "]))
        out.append(c)
    return "".join(out)


def rand_literal(rng, wild=True):
    r = rng.random()
    if not wild or r < 0.25:
        return rng.choice(["0", "1", "2", "3", "7", "10", "1.5", ".5", "1e3", "1E-3", "2.50e+2",
                           "0x10", "0o17", "0b101", "1_000", "1 000", "0.1", "100", "64"])
    if r < 0.40:
        k = rng.choice([31, 32, 63, 64, 127, 128])
        return str(2 ** k + rng.choice([-1, 0, 1]))
    if r < 0.55:
        nb = rng.choice([8, 64, 256, 1024, 4096])
        return sepify(rng, str(rng.getrandbits(nb)))
    if r < 0.75:
        ip = sepify(rng, str(rng.getrandbits(rng.choice([1, 8, 40]))))
        fp = sepify(rng, rand_digits(rng, rng.choice([1, 2, 5, 20, 60])))
        s = (ip if rng.random() < 0.85 else "") + "." + fp
        if rng.random() < 0.4:
            s += rng.choice("eE") + rng.choice(["", "+", "-"]) + str(rng.randrange(0, 40))
        return s
    if r < 0.85:
        s = sepify(rng, str(rng.getrandbits(30)))
        return s + rng.choice("eE") + rng.choice(["", "+", "-"]) + str(rng.randrange(0, 60))
    kind = rng.choice("xob")
    n = rng.getrandbits(rng.choice([4, 16, 64, 200]))
    body = {"x": "%x", "o": "%o", "b": None}[kind]
    ds = (body % n) if body else bin(n)[2:]
    if kind == "x":
        ds = "".join(c.upper() if rng.random() < 0.5 else c for c in ds)
    return "0" + kind + sepify(rng, ds)


def small_int_literal(rng):
    return str(rng.choice([0, 1, 2, 3, 4, 5, 8, 16, 31, 32, 63, 64]))


def gen_tree(rng, depth, wild=True):
    if depth == 0 or rng.random() < 0.25:
        t = ("lit", rand_literal(rng, wild))
        r = rng.random()
        if r < 0.12:
            t = ("neg", t)
        elif r < 0.16:
            t = ("pos", t)
        return t
    op = rng.choice(BINOPS)
    left = gen_tree(rng, depth - 1, wild)
    if op in ("^", "**", "<<", ">>"):
        # integer right operand, small magnitude (the exactness fragment)
        right = ("lit", small_int_literal(rng))
        r = rng.random()
        if r < 0.3:
            right = ("neg", right)
        elif r < 0.4 and depth > 1:
            right = ("bin", rng.choice(["+", "-", "*"]), ("lit", small_int_literal(rng)),
                     ("lit", str(rng.choice([0, 1, 2, 3]))))
        elif r < 0.45:
            right = ("lit", rng.choice(["0.5", "1.5", "1|2"]))   # non-integer: out of scope / undefined
    elif op in ("and", "or", "xor") and rng.random() < 0.8:
        left = ("lit", str(rng.getrandbits(rng.choice([4, 32, 70])) * rng.choice([1, 1, -1])))
        right = ("lit", rng.choice([str(rng.getrandbits(rng.choice([4, 32, 70]))), "0x" + "%x" % rng.getrandbits(40)]))
        if left[1].startswith("-"):
            left = ("neg", ("lit", left[1][1:]))
    else:
        right = gen_tree(rng, depth - 1, wild)
    t = ("bin", op, left, right)
    if rng.random() < 0.1:
        t = ("neg", t)
    return t


# ------------------------------------------------------------------ own printer
# precedence levels of the *documented* grammar: 0 add, 1 div-level, 2 juxt, 3 frac, 4 pow, 5 term
LEVEL = {"+": 0, "-": 0, "*": 1, "/": 1, "mod": 1, "<<": 1, ">>": 1, "and": 1, "or": 1, "xor": 1,
         "juxt": 2, "|": 3, "^": 4, "**": 4}


def render(t, rng, ctx_level=0, side=None):
    """Render with the parentheses the documented grammar needs (plus random redundant ones)."""
    k = t[0]
    if k == "lit":
        s = t[1]
        return s
    if k in ("neg", "pos"):
        inner = render(t[1], rng, 5)
        sign = rng.choice(["-", "−"]) if k == "neg" else "+"
        s = sign + (" " if rng.random() < 0.2 else "") + inner
        # a signed term is a term for the reader, except when it follows a juxtaposed operand
        # (where "-" would read as subtraction): always parenthesise there and under ^ left.
        if ctx_level >= 2:
            return "(" + s + ")"
        return s
    op, l, r = t[1], t[2], t[3]
    lv = LEVEL[op]
    if op in ("^", "**"):
        ls = render(l, rng, 5)            # left of ^ must be a term
        rs = render(r, rng, 4, "r")        # right-assoc
        if r[0] in ("neg", "pos"):
            rs = rs if rs.startswith("(") else rs
        s = ls + _sp(rng) + op + _sp(rng) + rs
    elif op == "|":
        ls = render(l, rng, 4)
        rs = render(r, rng, 4)
        s = ls + _sp(rng) + rng.choice(["|", "∕"]) + _sp(rng) + rs
    elif op == "juxt":
        ls = render(l, rng, 2)
        rs = render(r, rng, 3)
        s = ls + " " + rs
    elif lv == 1:
        ls = render(l, rng, 1)
        rs = render(r, rng, 2)
        sym = op
        if op == "/" and rng.random() < 0.15:
            sym = "per"
        s = ls + " " + sym + " " + rs
    else:
        ls = render(l, rng, 0)
        rs = render(r, rng, 1)
        sym = op if op == "+" or rng.random() < 0.8 else "−"
        s = ls + " " + sym + " " + rs
    if lv < ctx_level or rng.random() < 0.05:
        s = "(" + s + ")"
    return s


def _sp(rng):
    return " " if rng.random() < 0.5 else ""


def tree_value(t):
    """Value by direct recursion over the generated tree (the printer-independent half of
    the oracle self-check)."""
    k = t[0]
    if k == "lit":
        return R.evaluate(R.parse(t[1])).v
    if k == "pos":
        return tree_value(t[1])
    if k == "neg":
        return -tree_value(t[1])
    op = t[1]
    a, b = tree_value(t[2]), tree_value(t[3])
    m = {"juxt": "*", "**": "^"}.get(op, op)
    return R.evaluate(("bin", m, ("num", a), ("num", b))).v


def classify(text, tree=None):
    """Reference verdict for a query text: ("value", Fraction) | ("undefined", why) |
    ("skip", why)."""
    try:
        ast = R.parse(text)
    except R.SyntaxErr as e:
        return ("syntax", str(e))
    except R.OutOfScope as e:
        return ("skip", str(e))
    try:
        v = R.evaluate(ast)
    except R.Undefined as e:
        if R.MAX_BITS_SEEN[0] > (1 << 16):
            return ("skip", "an intermediate is beyond the 2^16-bit fragment")
        if R.FLOAT_SEEN[0]:
            # a root took part before the undefined step: rink works in machine floats from there on (0.0 x 1e400 is NaN,
            # not 0), so whether the divisor "is zero" is not an exact question any more
            return ("skip", "a root takes part: machine floats by documented design")
        return ("undefined", str(e))
    except (R.OutOfScope, R.DimErr) as e:
        return ("skip", str(e))
    if v.d:
        return ("skip", "dimensioned")
    if v.f:
        return ("skip", "a root takes part: machine floats by documented design")
    if R._size(v.v) > (1 << 16) or R.MAX_BITS_SEEN[0] > (1 << 16):
        return ("skip", "result beyond the 2^16-bit exactness fragment")
    if tree is not None:
        try:
            tv = tree_value(tree)
        except (R.Undefined, R.OutOfScope, R.DimErr):
            return ("oracle_disagree", "tree undefined, text defined")
        if tv != v.v:
            return ("oracle_disagree", "tree %s vs text %s" % (tv, v.v))
    return ("value", v.v)


# ---------------------------------------------------------------------- worker

def judge(part, probe, text, tree=None, origin="random"):
    ref = classify(text, tree)
    part.evaluations += 1
    if ref[0] == "oracle_disagree":
        part.count("oracle_selfcheck_dropped")
        return
    if ref[0] in ("skip", "syntax"):
        part.count("skipped:" + ref[0])
        return
    r = probe.eval(text, timeout=10, spans=False, json=False)
    if "timeout" in r or "died" in r:
        # re-run alone with 3x budget before it counts (after a few confirmed no-replies in
        # this worker the first watchdog is trusted, so a hanging tree cannot eat the budget)
        confirmed = part.counters.get("no_reply_confirmed", 0)
        r2 = r if confirmed >= 3 else probe.eval(text, timeout=30, spans=False, json=False)
        if "timeout" in r2 or "died" in r2:
            part.count("no_reply_confirmed")
            part.violation({"kind": "no_reply", "how": "timeout" if "timeout" in r2 else "died"},
                           {"query": text, "ops": _opclass(text)},
                           "no reply (hang/abort) on a small exact expression")
            return
        r = r2
    if "harness_error" in r:
        raise RuntimeError(r["harness_error"])
    ops = _ops_in(text)
    for o in ops:
        part.count("op:" + o)
    if len(ops) >= 1:
        part.seen(text)
    if r.get("panics"):
        p = r["panics"][0]
        sig = panic_sig(p)
        sig["expected"] = ref[0]
        part.violation(sig, {"query": text, "panic": p, "expected": str(ref[1])},
                       "panic instead of %s" % ("an error" if ref[0] == "undefined" else "the exact value"))
        return
    rep = r.get("r", {})
    kind = rep.get("kind")
    if ref[0] == "undefined":
        part.count("expect_undefined")
        if kind in ("number", "duration", "conversion"):
            part.violation({"kind": "number_for_undefined", "why": ref[1]},
                           {"query": text, "reply": r.get("text")},
                           "a number was returned where the result is undefined")
        return
    want = ref[1]
    if kind != "number":
        if kind and kind.startswith("err"):
            part.violation({"kind": "error_on_defined", "message": _norm(rep.get("message", kind))},
                           {"query": text, "expected": str(want), "reply": r.get("text")},
                           "error on a small defined expression")
        else:
            part.violation({"kind": "wrong_reply_kind", "got": kind},
                           {"query": text, "expected": str(want), "reply": r.get("text")}, "")
        return
    raw = rep["value"]["raw"]
    if raw.get("f"):
        part.violation({"kind": "float_fallback", "ops": sorted(ops)},
                       {"query": text, "expected": str(want), "got": raw},
                       "float result for an exact operator")
        return
    got = Fraction(int(raw["n"]), int(raw["d"]))
    if raw["u"]:
        part.violation({"kind": "dimension_on_pure_number"}, {"query": text, "got": raw}, "")
        return
    if got != want:
        part.violation({"kind": "wrong_value", "ops": sorted(ops)},
                       {"query": text, "expected": str(want), "got": str(got), "origin": origin},
                       "value differs from exact rational arithmetic")
        return
    part.count("agree")
    part.sample({"query": text, "value": str(want) if len(str(want)) < 80 else str(want)[:77] + "..."})


def _norm(m):
    import re
    m = re.sub(r"<[^>]*>", "<..>", m or "")
    return re.sub(r"\d+", "N", m)[:80]


def _ops_in(text):
    out = set()
    try:
        for k, v in R.tokenize(text):
            if k == "op" and v not in "()":
                out.add(v)
    except Exception:
        pass
    toks = [t for t in R.tokenize(text)] if out is not None else []
    for (k1, v1), (k2, v2) in zip(toks, toks[1:]):
        if (k1 == "num" or (k1, v1) == ("op", ")")) and (k2 == "num" or (k2, v2) == ("op", "(")):
            out.add("juxt")
    return out


def _opclass(text):
    return ",".join(sorted(_ops_in(text)))


def work(idx, chunk, seed, mode, n_random):
    probe = worker_probe()
    part = Part()
    rng = random.Random((seed << 8) ^ idx)
    global _NOREPLY_SEEN

    def enough():
        # a tree that hangs on a whole class of inputs must not eat the budget: the verdict is already decided
        # (counted per worker process, across its chunks)
        return _NOREPLY_SEEN + part.counters.get("no_reply_confirmed", 0) >= 4
    if mode == "texts":
        for text in chunk:
            if enough():
                part.count("stopped_early_after_repeated_no_reply")
                break
            judge(part, probe, text, None, "exhaustive")
    else:
        for _ in range(n_random):
            if enough():
                part.count("stopped_early_after_repeated_no_reply")
                break
            depth = rng.choice([1, 1, 2, 2, 3, 4, 5, 6])
            t = gen_tree(rng, depth, wild=rng.random() < 0.7)
            text = render(t, rng)
            if len(text) > 6000:
                continue
            judge(part, probe, text, t, "random")
            if rng.random() < 0.03:
                # the same (defined) text with something stray after it has no value: it must not be answered with a number
                judge_no_value(part, probe, text + rng.choice(STRAY), "stray tokens after a complete expression")
        if idx == 0:
            for text in NO_VALUE:
                judge_no_value(part, probe, text, "undefined or malformed")
    _NOREPLY_SEEN += part.counters.get("no_reply_confirmed", 0)
    return part.export()


_NOREPLY_SEEN = 0
STRAY = [") * 3", ")", ", 5", ",000 * 2", " ) / 0", " ) mod 0", " /* c */ + 2", "\n+ 1", " ] 2", ") (2"]
NO_VALUE = ["(1 + 2)) * 3", "1 + 2) * 3", "1,000 * 2", "1,5 + 1", "7 ) mod 0", "1 ) / 0", "1 /* c */ + 2",
            "0^-0.5", "0^(-3|2)", "0 ^ -1.5", "0^-(1|2)", "0.0^-0.25"]


def judge_no_value(part, probe, text, why):
    part.evaluations += 1
    r = probe.eval(text, timeout=10, spans=False, json=False)
    if "timeout" in r or "died" in r:
        part.inconclusive_event("no reply", {"query": text[:200]})
        return
    if r.get("panics"):
        p = r["panics"][0]
        part.violation(dict(panic_sig(p), expected="error"), {"query": text, "panic": p}, "panic instead of an error")
        return
    kind = (r.get("r") or {}).get("kind")
    if kind in ("number", "duration", "conversion"):
        part.violation({"kind": "number_for_text_without_value", "why": why, "tail": _norm(text[-12:])},
                       {"query": text, "reply": r.get("text")},
                       "a number was returned for a text that has no value (stray tokens ignored / undefined result)")
    else:
        part.count("no_value_refused")
        part.seen("novalue|" + text)


# -------------------------------------------------------------------- workloads

CALIBRATION = [
    ("6/2 3", 1), ("2^1|2", 1), ("10 mod 4 3", 10), ("8 >> 1 << 2", 16), ("7 and 3 or 8", 11),
    ("-7 mod 3", -1), ("-5 xor 3", -8), ("-2^2", 4), ("2^3^2", 512), ("1|2 3", Fraction(3, 2)),
    ("2 3|4", Fraction(3, 2)), ("1 - 2 - 3", -4), ("2 * 3 / 4 * 5", Fraction(15, 2)),
    ("2 / 3 4", Fraction(1, 6)), ("1 + 2 3", 7), ("0x10 + 0o10 + 0b10", 26), ("1e3", 1000),
    ("1E-3", Fraction(1, 1000)), (".5", Fraction(1, 2)), ("1_000", 1000), ("2.50e+2", 250),
    ("7 mod -3", 1), ("2**3", 8), ("2 ** -1", Fraction(1, 2)), ("(1+2)(3+4)", 21),
    ("12 per 4", 3), ("3 − 5", -2), ("1∕3", Fraction(1, 3)), ("0^0", 1),
    ("+--+42", 42), ("1.5 << 1", 3), ("3 >> 1", Fraction(3, 2)), ("10 - 2 3", 4),
    ("2^-2^2", 16), ("100 mod 7 mod 4", 2), ("1 << 2 + 1", 5), ("6 or 1 xor 3", 4),
    ("-1 and 0xff", 255), ("1|3 + 2|3", 1), ("2 3 ^ 2", 18),
]


def exhaustive_texts(alphabet, ops, max_ops):
    """All fully determined texts for trees of 1..max_ops binary operators, printed minimally
    (so precedence/associativity is what gets exercised) and fully parenthesised."""
    def sym(op):
        return " " if op == "juxt" else " %s " % op
    out = []
    for a, b in itertools.product(alphabet, repeat=2):
        for op in ops:
            out.append("%s%s%s" % (a, sym(op), b))
    if max_ops >= 2:
        for a, b, c in itertools.product(alphabet, repeat=3):
            for o1 in ops:
                for o2 in ops:
                    out.append("%s%s%s%s%s" % (a, sym(o1), b, sym(o2), c))          # flat
                    out.append("%s%s(%s%s%s)" % (a, sym(o1), b, sym(o2), c))        # right-nested
    return out


def run(tier, seed):
    run = Run("C01", tier, seed, "exploration", floor=1000)
    run.rule = ("queries are numeric expression trees rendered to text by the monitor's own printer "
                "(random spacing, ** / juxtaposition / U+2212 / U+2215 / per spellings, separators) "
                "plus bounded-exhaustive flat and right-nested texts over a boundary alphabet; "
                "non-trivial = distinct query text containing >= 1 operator whose reply was judged "
                "against the independent Fraction evaluation of the re-parsed text")
    run.assumptions = [
        "reference grammar from docs/rink.7.adoc with the calibrations in DESIGN.md C01 "
        "(unary sign binds tighter than ^; | does not chain; * / mod << >> and or xor one "
        "left-associative level below juxtaposition; 0^0 = 1; truncated mod)",
        "exactness fragment: integer exponents and shift counts of magnitude <= 64 nested such that "
        "every intermediate stays below 2^18 bits; beyond that the reference abstains (skip)",
        "Python big integers and fractions.Fraction are exact",
    ]
    # calibration: the reference grammar must itself give the documented values
    for text, want in CALIBRATION:
        ref = classify(text)
        if ref != ("value", Fraction(want)):
            raise RuntimeError("reference grammar miscalibrated on %r: %r" % (text, ref))
    rng = random.Random(seed)
    procs = nproc()
    alpha = SMALL_ALPHABET
    ops = ["+", "-", "*", "/", "|", "juxt", "^", "**", "mod", "<<", ">>", "and", "or", "xor"]
    if tier == "quick":
        texts = exhaustive_texts(alpha, ops, 1)
        two = exhaustive_texts(["0", "2", "3", "-1", "1.5", "1|3"], ops, 2)[len(texts) * 0:]
        rng.shuffle(two)
        texts += two[:12000]
        n_random = 1200
        run.exhaustive = False
    else:
        texts = exhaustive_texts(alpha, ops, 1)
        texts += exhaustive_texts(["0", "1", "2", "3", "-1", "1.5", "0x10", "1|3"], ops, 2)
        n_random = 150000
        run.exhaustive = False
    texts = [c[0] for c in CALIBRATION] + texts
    for res in shard_map(work, split(texts, procs * 4), (seed, "texts", 0)):
        run.merge(res)
    for res in shard_map(work, [None] * procs, (seed, "random", n_random)):
        run.merge(res)
    run.extra_cov["exhaustive_part"] = {
        "alphabet": alpha, "operators": ops,
        "texts": len(texts),
        "note": "all 1-operator texts over the alphabet; 2-operator flat and right-nested texts "
                + ("sampled" if tier == "quick" else "complete over an 8-literal alphabet")}
    if run.counters.get("oracle_selfcheck_dropped", 0) > run.evaluations * 0.01:
        run.inconclusive_event("oracle self-check dropped more than 1% of generated cases")
    return run.finish()


if __name__ == "__main__":
    from lib.common import tier_seed
    a = tier_seed()
    sys.exit(run(a.tier, a.seed))
