"""C20 — currency cache is replaced atomically or not at all.

Fault enumeration on the real `rink` binary: prior cache state x server behaviour x entry point,
observed at the client boundary (cache-directory bytes before/after, stdout/exit status of this and
the next start) and at the syscall boundary (strace log checked against a trace specification;
SIGKILL injected at every file syscall of the refresh)."""
import json
import os
import random
import re
import shutil
import subprocess
import sys
import tempfile
import time
from concurrent.futures import ThreadPoolExecutor

from lib.common import Run
from lib.probe import TARGET, RUN_DIR, nproc, HarnessError
from httpfault import FaultServer, closed_port

PACKAGES = ()
RINK = os.path.join(TARGET, "rink-cli", "release", "rink")
SNAP = "/repo/core/tests/currency.snapshot.json"


def build_cli():
    from c04_totality import build_cli as b
    b()


def bodies():
    old = open(SNAP, "rb").read()
    data = json.loads(old)
    for e in data:
        if e["name"] == "USD":
            e["expr"] = "(1 / 2) EUR"
    # pad so the body spans several network reads / write callbacks
    for i in range(1500):
        data.append({"name": "ZZTEST%04d" % i, "doc": "padding entry %d for the cache monitor" % i, "category": "currencies",
                     "type": "unit", "expr": "(1 / %d) EUR" % (i + 3)})
    new = json.dumps(data).encode()
    return old, new


def make_home(state, old, endpoint, timeout="400ms", limits=False):
    os.makedirs(RUN_DIR, exist_ok=True)
    home = tempfile.mkdtemp(prefix="c20-", dir=RUN_DIR)
    os.makedirs(os.path.join(home, "config", "rink"))
    os.makedirs(os.path.join(home, "cache", "rink"))
    open(os.path.join(home, "config", "rink", "config.toml"), "w").write(
        '[currency]\nenabled = true\nfetch_on_startup = true\nendpoint = "%s"\ncache_duration = "1h"\ntimeout = "%s"\n'
        '[limits]\nenabled = %s\n[colors]\nenabled = false\n' % (endpoint, timeout, "true" if limits else "false"))
    cache = os.path.join(home, "cache", "rink", "currency.json")
    prev = None
    if state in ("fresh", "stale", "future"):
        prev = old
    elif state in ("unreadable_fresh", "unreadable_stale"):
        prev = b'{"this is": not json at all ['
    if prev is not None:
        open(cache, "wb").write(prev)
        if state.endswith("stale"):
            t = time.time() - 7200
            os.utime(cache, (t, t))
        elif state == "future":
            # modification time ahead of the clock (clock stepped back, restored directory): an existing cache whose
            # age cannot be computed; the code treats it as not current
            t = time.time() + 600
            os.utime(cache, (t, t))
    return home, cache, prev


def env_for(home):
    return dict(os.environ, XDG_CONFIG_HOME=os.path.join(home, "config"), XDG_CACHE_HOME=os.path.join(home, "cache"),
                HOME=home, NO_COLOR="1", RUST_BACKTRACE="0")


def run_rink(home, args, strace_log=None, inject=None, timeout=60, stdin_text=None):
    cmd = [RINK] + args
    if strace_log:
        pre = ["strace", "-f", "-y", "-o", strace_log, "-e", "trace=openat,open,creat,write,pwrite64,writev,ftruncate,truncate,fsync,"
               "fdatasync,rename,renameat,renameat2,unlink,unlinkat,link,linkat"]
        if inject:
            pre += ["-e", inject]
        cmd = pre + cmd
    try:
        p = subprocess.run(cmd, env=env_for(home), stdout=subprocess.PIPE, stderr=subprocess.PIPE, timeout=timeout, cwd=home,
                           input=None if stdin_text is None else stdin_text.encode(),
                           stdin=subprocess.DEVNULL if stdin_text is None else None)
        return p.returncode, p.stdout.decode(errors="replace"), p.stderr.decode(errors="replace")
    except subprocess.TimeoutExpired:
        return "timeout", "", ""


def read_cache(cache):
    try:
        return open(cache, "rb").read()
    except FileNotFoundError:
        return None


# ------------------------------------------------------------------ trace specification

def check_trace(log_text, cache_path, transfer_ok):
    """T1: currency.json itself is never opened for writing/truncated/written.
    T2: every rename X -> currency.json is preceded by fsync(X) with no write to X in between, and X was created
        with O_EXCL in the same directory.  T3: no rename onto currency.json when the transfer failed."""
    problems = []
    created_excl = set()
    written_since_sync = {}
    synced = set()
    cdir = os.path.dirname(cache_path)
    for line in log_text.splitlines():
        m = re.match(r"^\d+\s+(\w+)\((.*)$", line)
        if not m:
            continue
        sc, rest = m.group(1), m.group(2)
        if " = -1 " in line and sc not in ("rename", "renameat", "renameat2"):
            continue
        if sc in ("openat", "open", "creat"):
            pm = re.search(r'"([^"]*)"', rest)
            if not pm:
                continue
            path = pm.group(1)
            if not os.path.isabs(path):
                continue
            flags = rest
            if path == cache_path and re.search(r"O_WRONLY|O_RDWR|O_TRUNC|O_CREAT", flags):
                problems.append(("T1", "cache file opened for writing: " + line[:200]))
            if os.path.dirname(path) == cdir and "O_EXCL" in flags and "O_CREAT" in flags:
                created_excl.add(path)
                written_since_sync[path] = False
        elif sc in ("write", "pwrite64", "writev", "ftruncate"):
            fm = re.match(r"\d+<([^>]*)>", rest)
            if not fm:
                continue
            path = fm.group(1)
            if path == cache_path:
                problems.append(("T1", "write/truncate on the cache file: " + line[:200]))
            if path in written_since_sync:
                written_since_sync[path] = True
                synced.discard(path)
        elif sc == "truncate":
            if '"%s"' % cache_path in rest:
                problems.append(("T1", "truncate on the cache file"))
        elif sc in ("fsync", "fdatasync"):
            fm = re.match(r"\d+<([^>]*)>", rest)
            if fm:
                synced.add(fm.group(1))
                written_since_sync[fm.group(1)] = False
        elif sc in ("rename", "renameat", "renameat2", "link", "linkat"):
            paths = re.findall(r'"([^"]*)"', rest)
            if len(paths) >= 2 and paths[-1] == cache_path or (len(paths) >= 2 and os.path.basename(paths[-1]) == "currency.json"
                                                              and cdir in rest):
                if " = 0" not in line:
                    continue
                src = paths[0] if os.path.isabs(paths[0]) else os.path.join(cdir, paths[0])
                if not transfer_ok:
                    problems.append(("T3", "cache replaced although the transfer failed: " + line[:200]))
                if src not in created_excl:
                    problems.append(("T2", "replacement file was not created exclusively in the cache directory: " + src))
                if src not in synced or written_since_sync.get(src, True):
                    problems.append(("T2", "replacement file renamed without a preceding fsync after its last write: " + src))
    return problems


# ------------------------------------------------------------------ scenarios

def behaviours(new_len, tier):
    cuts = [0, 1, 100, 16383, 16384, 16385, new_len // 2, new_len - 1]
    if tier == "thorough":
        cuts = sorted(set(cuts + list(range(0, new_len, 4096)) + [k + d for k in range(16384, new_len, 16384) for d in (-1, 0, 1)]))
    out = [("ok", "/ok", True), ("chunked", "/chunked", True)]
    out += [("cl_cut", "/cl_cut/%d" % k, False) for k in cuts]
    out += [("chunk_cut", "/chunk_cut/%d" % k, False) for k in (cuts if tier == "thorough" else cuts[::2])]
    out += [("hdr_cut", "/hdr_cut/%d" % k, False) for k in ([17, 40, 70] if tier == "quick" else [1, 10, 16, 17, 18, 25, 40, 55, 70, 90, 100])]
    out += [("status_%d" % c, "/status/%d" % c, False) for c in (301, 302, 404, 500, 503)]
    out += [("stall", "/stall/3000", False), ("stall_headers", "/stall_headers/3000", False), ("rst", "/rst", False),
            ("refused", None, False), ("garbage", "/garbage", True)]
    return out


def scenario(job):
    (state, bname, path, transfer_ok, entry, old, new, server, with_strace, seed) = job[:10]
    limits = len(job) > 10 and job[10]
    endpoint = server.url(path) if path is not None else "http://127.0.0.1:%d/ok" % closed_port()
    home, cache, prev = make_home(state, old, endpoint, limits=limits)
    res = {"state": state, "behaviour": bname + ("+sandboxed" if limits else ""), "entry": entry, "problems": [], "observed": {}}
    try:
        before = read_cache(cache)
        slog = os.path.join(home, "strace.log") if with_strace else None
        args = ["--fetch-currency"] if entry == "fetch" else ["USD -> EUR", "1 + 1"]
        n_before = len(server.requests_seen())
        if limits:
            # the sandboxed mode is the interactive one: no arguments, queries on (piped) standard input
            rc, out, err = run_rink(home, [], strace_log=slog, timeout=30, stdin_text="USD -> EUR\n1 + 1\n")
        else:
            rc, out, err = run_rink(home, args, strace_log=slog)
        after = read_cache(cache)
        body_served = new if bname != "garbage" else (b"this is not json {{{" * 10)
        res["observed"] = {"rc": rc, "cache_before": None if before is None else len(before),
                           "cache_after": None if after is None else len(after), "stdout": out[-400:]}
        fetched = (entry == "fetch") or state in ("absent", "stale", "unreadable_stale", "future")
        # 1. cache bytes: previous or complete new, never anything else
        admissible = [before]
        if fetched and transfer_ok:
            admissible = [body_served]
        if after not in admissible:
            if after == body_served and not transfer_ok:
                what = "complete new body although the refresh failed?"
            elif after == before:
                what = "cache not replaced although the refresh succeeded"
            else:
                what = "cache holds neither the previous nor the complete new contents (%s bytes; previous %s, new %s)" % (
                    None if after is None else len(after), None if before is None else len(before), len(body_served))
            res["problems"].append(("cache_contents", what))
        # 2. rink still starts and answers
        if rc == "timeout":
            res["problems"].append(("hang", "rink did not finish within 60 s"))
        elif entry == "startup":
            if rc != 0 or "2 (dimensionless)" not in out:
                res["problems"].append(("startup_failed", "rink did not start / did not answer 1 + 1 (rc=%s)" % rc))
            have_rates = None
            if fetched and transfer_ok and bname != "garbage":
                have_rates = "new"
            elif not (fetched and transfer_ok) and state in ("fresh", "stale", "future"):
                have_rates = "old"
            if have_rates == "new" and "0.5 EUR" not in out.replace("euro", "EUR"):
                res["problems"].append(("new_rates_not_used", out[-300:]))
            if have_rates == "old" and not re.search(r"0\.92\d+ (EUR|euro)", out):
                res["problems"].append(("stale_cache_not_used", out[-300:]))
        else:
            if transfer_ok and rc != 0:
                res["problems"].append(("fetch_currency_failed_on_success", "rc=%s %s" % (rc, err[-200:])))
            if not transfer_ok and rc == 0:
                res["problems"].append(("fetch_currency_reports_success_on_failure", out[-200:]))
        # 3. the next start: sees the new rates after success, still starts after failure
        rc2, out2, err2 = run_rink(home, ["USD -> EUR", "1 + 1"])
        # (the next start may refresh again when the cache is still stale; that is fine)
        if rc2 != 0 or "2 (dimensionless)" not in out2:
            res["problems"].append(("next_start_failed", "rc=%s %s" % (rc2, out2[-200:])))
        if fetched and transfer_ok and bname != "garbage" and "0.5" not in out2:
            res["problems"].append(("new_rates_not_visible_to_next_start", out2[-300:]))
        after2 = read_cache(cache)
        if after2 not in (after, new, body_served):
            res["problems"].append(("cache_contents", "after the next start the cache holds a partial/mixed file"))
        # 4. fresh cache: no request at all
        if entry == "startup" and state in ("fresh", "unreadable_fresh"):
            if len(server.requests_seen()) != n_before and path is not None:
                pass      # other scenarios share the server; request accounting is checked in the serial pass
        # 5. trace specification
        if slog and os.path.exists(slog):
            tp = check_trace(open(slog, errors="replace").read(), cache, fetched and transfer_ok)
            for t, what in tp:
                res["problems"].append(("trace_" + t, what))
            res["observed"]["trace_checked"] = True
    finally:
        shutil.rmtree(home, ignore_errors=True)
    return res


def sequence(job):
    """several refreshes in a row on one cache directory: after every step the cache holds the previous or the
    complete new contents of *that* step (a failed or killed refresh must leave nothing behind that a later one picks up)"""
    (state, steps, old, new, new2, server) = job
    home, cache, prev = make_home(state, old, server.url("/ok"))
    res = {"state": state, "steps": [s[0] for s in steps], "problems": []}
    try:
        cfg = os.path.join(home, "config", "rink", "config.toml")
        for i, (path, ok, kill_at) in enumerate(steps):
            txt = open(cfg).read()
            txt = re.sub(r'endpoint = "[^"]*"', 'endpoint = "%s"' % server.url(path), txt)
            open(cfg, "w").write(txt)
            before = read_cache(cache)
            if kill_at:
                run_rink(home, ["--fetch-currency"], strace_log=os.path.join(home, "k.log"),
                         inject="inject=write:signal=SIGKILL:when=%d" % kill_at)
            else:
                run_rink(home, ["--fetch-currency"])
            after = read_cache(cache)
            body = new2 if path == "/ok2" else new
            admissible = [before] + ([body] if ok else [])
            if kill_at:
                admissible = [before, body]
            if ok and not kill_at and after != body:
                res["problems"].append(("cache_contents_in_sequence", "step %d (%s): successful refresh left %s bytes, expected the complete body of %d bytes" % (
                    i, path, None if after is None else len(after), len(body))))
                break
            if after not in admissible:
                res["problems"].append(("cache_contents_in_sequence", "step %d (%s): cache has %s bytes: neither the previous nor the complete new contents" % (
                    i, path, None if after is None else len(after))))
                break
        rc2, out2, err2 = run_rink(home, ["1 + 1"])
        if rc2 != 0 or "2 (dimensionless)" not in out2:
            res["problems"].append(("next_start_failed", "after the sequence rc=%s" % rc2))
    finally:
        shutil.rmtree(home, ignore_errors=True)
    return res


def crash_points(run, old, new, server, state):
    """kill -9 the client at every file syscall of a successful refresh"""
    endpoint = server.url("/ok")
    home, cache, prev = make_home(state, old, endpoint)
    try:
        slog = os.path.join(home, "strace.log")
        rc, out, err = run_rink(home, ["--fetch-currency"], strace_log=slog)
        if rc != 0:
            raise HarnessError("reference refresh under strace failed: rc=%s %s" % (rc, err[-300:]))
        lines = [l for l in open(slog, errors="replace").read().splitlines() if re.match(r"^\d+\s+\w+\(", l)]
        cdir = os.path.dirname(cache)
        # window: from the first syscall touching the cache directory to the last one
        idx = [i for i, l in enumerate(lines) if cdir in l]
        if not idx:
            raise HarnessError("no syscall touches the cache directory in the reference trace")
        first, last = idx[0], idx[-1]
        names = [re.match(r"^\d+\s+(\w+)\(", l).group(1) for l in lines]
        run.extra_cov.setdefault("refresh_syscalls", {})[state] = {
            "total_traced": len(lines), "window": [first + 1, last + 1],
            "kinds": sorted(set(names[first:last + 1]))}
    finally:
        shutil.rmtree(home, ignore_errors=True)
    traced = "openat,open,creat,write,pwrite64,writev,ftruncate,truncate,fsync,fdatasync,rename,renameat,renameat2,unlink,unlinkat,link,linkat"

    def one(n):
        home, cache, prev = make_home(state, old, endpoint)
        try:
            before = read_cache(cache)
            rc, out, err = run_rink(home, ["--fetch-currency"], strace_log=os.path.join(home, "s.log"),
                                    inject="inject=%s:signal=SIGKILL:when=%d" % (traced, n))
            after = read_cache(cache)
            problems = []
            if after not in (before, new):
                problems.append(("cache_contents_after_kill", "killed at traced syscall #%d (%s): cache has %s bytes, previous %s, new %d" % (
                    n, names[n - 1] if n - 1 < len(names) else "?", None if after is None else len(after),
                    None if before is None else len(before), len(new))))
            rc2, out2, err2 = run_rink(home, ["1 + 1", "USD -> EUR"])
            if rc2 != 0 or "2 (dimensionless)" not in out2:
                problems.append(("start_after_kill_failed", "killed at #%d; next start rc=%s %s" % (n, rc2, out2[-200:])))
            return n, rc, problems, after == new
        finally:
            shutil.rmtree(home, ignore_errors=True)
    points = list(range(max(1, first + 1 - 2), last + 1 + 3))
    with ThreadPoolExecutor(max_workers=nproc()) as ex:
        for n, rc, problems, replaced in ex.map(one, points):
            run.evaluations += 1
            for kind, what in problems:
                run.violation({"kind": kind, "cache_state": state}, {"kill_at_syscall": n, "what": what, "rc": rc},
                              "killing the client during the refresh left a partial/mixed cache or broke the next start")
            if not problems:
                run.count("crash_point_ok")
                run.seen("kill|%s|%d|%s" % (state, n, "replaced" if replaced else "kept"))
    run.count("crash_points:" + state, len(points))


def run(tier, seed):
    run = Run("C20", tier, seed, "fault_enumeration", floor=40)
    run.rule = ("real `rink` binary with XDG dirs in a scratch home and the endpoint pointed at a fault-injecting loopback server: "
                "prior cache {absent, fresh, stale, unreadable fresh, unreadable stale, dated ahead of the clock} x server {connection closed inside the response headers} x server {200 complete (Content-Length and "
                "chunked), body cut after k bytes under both framings, 301/302/404/500/503, stall in body and before headers, reset, "
                "refused, complete non-JSON body} x entry point {startup with a currency query, --fetch-currency}; cache bytes "
                "compared with the two admissible contents, this and the next start's output checked, strace log checked against "
                "the trace specification, SIGKILL injected at every traced file syscall of the refresh, and sequences of refreshes on one "
                "cache directory (cut / stalled / killed, then a shorter complete body); non-trivial = distinct "
                "(cache state, behaviour, entry point) and (cache state, kill point) tuples")
    run.assumptions = ["a body without Content-Length or chunked framing that the server closes early is indistinguishable from a "
                       "complete short body and is not generated",
                       "lost page cache after power failure cannot be observed in this VM: fsync-before-rename is checked on the trace only",
                       "temporary files left behind by SIGKILL are not part of the statement"]
    build_cli()
    old, new = bodies()
    new2 = old[:-2] + b" ]" if old.rstrip().endswith(b"]") else old      # a second, much shorter complete body (valid JSON)
    server = FaultServer(new, new2)
    try:
        rng = random.Random(seed)
        jobs = []
        states = ["absent", "fresh", "stale", "unreadable_fresh", "unreadable_stale", "future"]
        for state in states:
            for (bname, path, ok) in behaviours(len(new), tier):
                for entry in ("startup", "fetch"):
                    if tier == "quick" and bname in ("cl_cut", "chunk_cut") and state not in ("absent", "stale"):
                        continue
                    jobs.append((state, bname, path, ok, entry, old, new, server, True, rng.randrange(1 << 30)))
        # queries evaluated in the sandboxed child (`[limits] enabled = true`): the child loads the configuration as well,
        # and whatever it prints on stdout lands in the pipe to the parent
        for state in ("absent", "stale", "fresh"):
            for (bname, path, ok) in [("ok", "/ok", True), ("status_500", "/status/500", False), ("refused", None, False),
                                      ("cl_cut", "/cl_cut/%d" % (len(new) // 2), False), ("stall", "/stall/3000", False), ("garbage", "/garbage", True)]:
                jobs.append((state, bname, path, ok, "startup", old, new, server, False, rng.randrange(1 << 30), True))
        with ThreadPoolExecutor(max_workers=nproc()) as ex:
            for res in ex.map(scenario, jobs):
                run.evaluations += 1
                key = {"state": res["state"], "behaviour": res["behaviour"], "entry": res["entry"]}
                if res["problems"]:
                    for kind, what in res["problems"]:
                        run.violation({"kind": kind, "behaviour": res["behaviour"].split("_")[0] if res["behaviour"].startswith(("cl_", "chunk_")) else res["behaviour"],
                                       "cache_state": res["state"], "entry": res["entry"]},
                                      dict(key, what=what, observed=res["observed"]),
                                      "cache replaced non-atomically / rink does not cope with a failed refresh")
                else:
                    run.count("scenario_ok")
                    run.count("behaviour:" + res["behaviour"])
                    run.seen("%s|%s|%s" % (res["state"], res["behaviour"] + str(res["observed"].get("cache_after")), res["entry"]))
                    if len(run.samples) < 8:
                        run.sample(dict(key, observed={k: v for k, v in res["observed"].items() if k != "stdout"}))
        # a fresh cache must not be refreshed at all: serial pass with request accounting
        for state in ("fresh", "unreadable_fresh"):
            home, cache, prev = make_home(state, old, server.url("/ok"))
            n0 = len(server.requests_seen())
            rc, out, err = run_rink(home, ["1 + 1"])
            run.evaluations += 1
            if len(server.requests_seen()) != n0:
                run.count("fresh_cache_was_refetched")      # not a property violation, just recorded
            if read_cache(cache) != prev and read_cache(cache) != new:
                run.violation({"kind": "cache_contents", "cache_state": state, "entry": "startup-serial"}, {}, "")
            shutil.rmtree(home, ignore_errors=True)
        # sequences of refreshes on one cache directory (failed / killed, then a shorter complete body, ...)
        L = len(new)
        seqs = []
        for state in ("absent", "stale"):
            for k in ([L // 2, 20000, L - 1] if tier == "quick" else [1, 100, 16384, 20000, L // 3, L // 2, L - 100, L - 1]):
                seqs.append((state, [("/cl_cut/%d" % k, False, 0), ("/ok2", True, 0)], old, new, new2, server))
                seqs.append((state, [("/chunk_cut/%d" % k, False, 0), ("/ok2", True, 0), ("/ok", True, 0)], old, new, new2, server))
            seqs.append((state, [("/ok", True, 0), ("/ok2", True, 0), ("/ok", True, 0)], old, new, new2, server))
            seqs.append((state, [("/stall/3000", False, 0), ("/ok2", True, 0)], old, new, new2, server))
            for kill_at in ([3, 6] if tier == "quick" else [2, 3, 4, 6, 9, 12]):
                seqs.append((state, [("/ok", True, kill_at), ("/ok2", True, 0)], old, new, new2, server))
        with ThreadPoolExecutor(max_workers=nproc()) as ex:
            for res in ex.map(sequence, seqs):
                run.evaluations += 1
                if res["problems"]:
                    for kind, what in res["problems"]:
                        run.violation({"kind": kind, "cache_state": res["state"], "first_step": res["steps"][0].split("/")[1]},
                                      {"steps": res["steps"], "what": what}, "a sequence of refreshes left a partial or mixed cache file")
                else:
                    run.count("sequence_ok")
                    run.seen("seq|%s|%s" % (res["state"], ",".join(res["steps"])))
        for state in (["stale"] if tier == "quick" else ["absent", "stale", "unreadable_stale", "fresh"]):
            crash_points(run, old, new, server, state)
    finally:
        server.close()
    run.extra_cov["new_body_bytes"] = len(new)
    return run.finish()


if __name__ == "__main__":
    from lib.common import tier_seed
    a = tier_seed()
    sys.exit(run(a.tier, a.seed))
