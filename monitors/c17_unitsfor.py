"""C17 — `units for` and `factorize` are dimensionally sound and complete.

Set-comparison monitor, exhaustive over the named quantities and the dimensionalities occurring in
the loaded database: replies are compared with sets computed from the registry dump and with an
independent dimension algebra."""
import random
import re
import sys
from fractions import Fraction

from lib import refexpr as R
from lib.common import Part, Run, panic_sig
from lib.probe import shard_map, split, worker_probe, nproc
from lib.registry import Registry, dims_key, render_name, KEYWORDS

_REG = None


def get_reg(probe):
    global _REG
    if _REG is None:
        d = probe.request({"op": "dump", "ctx": probe.ctx("bundled")}, timeout=120)
        _REG = Registry(d["dump"])
    return _REG


def base_product(dims):
    num = " ".join(("%s^%d" % (render_name(b), e) if e != 1 else render_name(b)) for b, e in sorted(dims) if e > 0)
    den = " ".join(("%s^%d" % (render_name(b), -e) if e != -1 else render_name(b)) for b, e in sorted(dims) if e < 0)
    s = num or "1"
    if den:
        s += " / (%s)" % den
    return s


def expected_units(reg, dk):
    """non-alias units with exactly this dimensionality, from the registry data"""
    out = set()
    for n, v in reg.units.items():
        d = reg.definitions.get(n)
        if d is not None and d["ast"].get("type") == "unit":
            continue            # alias
        if dims_key(v.d) == dk:
            out.add(n)
    base_names = set()
    if len(dk) == 1 and dk[0][1] == 1:
        b = dk[0][0]
        base_names = {b, reg.long_names.get(b, b)}
    return out, base_names


def ask(part, probe, q, timeout):
    part.evaluations += 1
    r = probe.eval(q, timeout=timeout, spans=False, json=False)
    if "timeout" in r or "died" in r:
        return "noreply"
    if r.get("panics"):
        p = r["panics"][0]
        part.violation(panic_sig(p), {"query": q, "panic": p}, "panic")
        return None
    return r


def forms_for(reg, dk, rng):
    """ways of writing X: quantity name, a unit of that dimensionality, an explicit base-unit product"""
    forms = []
    q = reg.quantities.get(dk)
    if q and render_name(q) == q and q not in KEYWORDS:
        forms.append(("quantity-name", q))
    names = reg.dim_classes().get(dk, [])
    names = [n for n in names if render_name(n) and n not in KEYWORDS and n != q]
    if names:
        forms.append(("unit", render_name(rng.choice(names))))
    if dk:
        forms.append(("base-product", base_product(dk)))
    return forms


def work(idx, chunk, seed, budget):
    probe = worker_probe()
    reg = get_reg(probe)
    part = Part()
    rng = random.Random((seed << 5) ^ (idx * 31337 + 4))
    for dk in chunk:
        dk = tuple(tuple(x) for x in dk)
        forms = forms_for(reg, dk, rng)
        exp, base_names = expected_units(reg, dk)
        # ---------------- units for
        answers = []
        for fname, text in forms:
            q = "units for %s" % text
            r = ask(part, probe, q, 30)
            if r is None:
                continue
            if r == "noreply":
                part.inconclusive_event("units for: no reply", {"query": q})
                continue
            rep = r.get("r") or {}
            wit = {"query": q, "reply": (r.get("text") or "")[:300]}
            if rep.get("kind") != "unitsfor":
                part.violation({"kind": "unitsfor_failed", "form": fname, "got": rep.get("kind")}, wit, "")
                continue
            listed = []
            for cat in rep["units"]:
                for u in cat["units"]:
                    listed.append((cat["category"], u))
            names = [u for _, u in listed]
            ok = True
            dup = sorted({n for n in names if names.count(n) > 1})
            if dup:
                part.violation({"kind": "unit_listed_twice"}, dict(wit, names=dup[:10]), "a unit is listed more than once")
                ok = False
            wrong = []
            for n in set(names):
                if n in base_names:
                    continue
                v = reg.lookup_exact(n)
                if v is None or dims_key(v.d) != dk:
                    wrong.append(n)
            if wrong:
                shape = "base unit of a power" if all(w in reg.base_units or w in reg.long_names.values() for w in wrong) else "other"
                part.violation({"kind": "unit_of_other_dimensionality_listed", "shape": shape},
                               dict(wit, names=sorted(wrong)[:10], dims=dk), "units for X lists a unit that does not have X's dimensionality")
                ok = False
            missing = sorted(exp - set(names))
            if missing:
                part.violation({"kind": "unit_missing_from_units_for"}, dict(wit, names=missing[:10], dims=dk),
                               "a non-alias unit of that dimensionality is not listed")
                ok = False
            extra_alias = sorted(n for n in set(names) - exp - base_names - set(wrong))
            if extra_alias:
                part.violation({"kind": "alias_listed"}, dict(wit, names=extra_alias[:10]), "")
                ok = False
            if base_names and not (set(names) & base_names):
                # the base unit is itself a non-alias unit of exactly this dimensionality
                part.violation({"kind": "base_unit_missing_from_units_for"}, dict(wit, base=sorted(base_names), dims=dk),
                               "the base unit of this dimensionality is not listed")
                ok = False
            # each under its own category
            short_of = {v: k for k, v in reg.long_names.items()}
            for cat, n in listed:
                # a base unit is listed by its long name; its category was recorded under the name it is defined with
                cid = reg.categories.get(n) if n in reg.categories else reg.categories.get(short_of.get(n, n))
                want = reg.category_names.get(cid) if cid is not None else None
                if cat != want:
                    part.violation({"kind": "unit_under_wrong_category"},
                                   dict(wit, unit=n, shown=cat, own=want), "unit grouped under a category that is not its own")
                    ok = False
                    break
            # the header describes X
            of = rep["of"]
            if of.get("raw_dimensions") is not None and dims_key(of["raw_dimensions"]) != dk:
                part.violation({"kind": "unitsfor_header_dimensionality"}, dict(wit, shown=of["raw_dimensions"], dims=dk), "")
                ok = False
            answers.append((fname, sorted(listed, key=lambda x: (str(x[0]), x[1]))))
            if ok:
                part.count("unitsfor_ok:" + fname)
        for (f1, a1), (f2, a2) in zip(answers, answers[1:]):
            if a1 != a2:
                part.violation({"kind": "unitsfor_answer_depends_on_spelling", "forms": [f1, f2]},
                               {"dims": dk, "only_in_first": [x for x in a1 if x not in a2][:5],
                                "only_in_second": [x for x in a2 if x not in a1][:5]},
                               "units for gives different answers for a quantity name and an expression of that dimensionality")
        if answers:
            part.seen("unitsfor|" + str(dk))
            part.sample({"dims": dict(dk), "forms": [f for f, _ in answers], "units_listed": len(answers[0][1])})
        # ---------------- factorize
        fanswers = []
        for fname, text in forms:
            q = "factorize %s" % text
            r = ask(part, probe, q, budget)
            if r is None:
                continue
            if r == "noreply":
                # isolation re-run with 3x budget before it counts as a hang (C04 owns the verdict on hangs)
                r = ask(part, probe, q, budget * 3)
                if r is None:
                    continue
                if r == "noreply":
                    part.inconclusive_event("factorize: no reply within watchdog", {"query": q})
                    continue
            rep = r.get("r") or {}
            wit = {"query": q, "reply": (r.get("text") or "")[:300]}
            if rep.get("kind") != "factorize":
                part.violation({"kind": "factorize_failed", "form": fname, "got": rep.get("kind")}, wit, "")
                continue
            facs = rep["factorizations"]
            ok = True
            seen = set()
            for fz in facs:
                key = tuple(sorted(fz.items()))
                if key in seen:
                    part.violation({"kind": "duplicate_factorization"}, dict(wit, factorization=fz), "")
                    ok = False
                seen.add(key)
                d = {}
                bad = False
                for qn, c in fz.items():
                    if qn not in reg.quantity_dims:
                        bad = True
                        break
                    d = R.dmul(d, R.dpow(dict(reg.quantity_dims[qn]), int(c)))
                if bad or dims_key(d) != dk:
                    part.violation({"kind": "factorization_product_differs"},
                                   dict(wit, factorization=fz, product=d, dims=dk),
                                   "a factorization does not multiply out to X's dimensionality")
                    ok = False
            fanswers.append((fname, sorted(tuple(sorted(fz.items())) for fz in facs)))
            if ok:
                part.count("factorize_ok:" + fname)
        for (f1, a1), (f2, a2) in zip(fanswers, fanswers[1:]):
            if a1 != a2:
                part.violation({"kind": "factorize_answer_depends_on_spelling", "forms": [f1, f2]},
                               {"dims": dk, "first": a1[:4], "second": a2[:4]}, "")
        if fanswers:
            part.seen("factorize|" + str(dk))
    return part.export()


def run(tier, seed):
    run = Run("C17", tier, seed, "exploration", floor=100)
    run.rule = ("every named quantity and every dimensionality occurring among the database's units, each written as quantity "
                "name, as a unit of that dimensionality and as an explicit base-unit product, plus random base-unit products "
                "with exponents -3..3 and with exponents 25..1000 (beyond factorize's 50-factor limit); `units for` compared as a set with the non-alias units of that dimensionality from the "
                "registry (and their own categories), `factorize` multiplied out with the dimension algebra; non-trivial = "
                "distinct dimensionality queried")
    run.assumptions = ["alias = definition is a bare unit name; a unit's own category is registry.categories[name]",
                       "the base unit itself belongs to the list exactly when X is that base unit to the power 1",
                       "a factorize request that exceeds its watchdog twice is inconclusive here (C04 owns hangs)"]
    probe = worker_probe()
    reg = get_reg(probe)
    rng = random.Random(seed)
    dks = set(reg.dim_classes().keys()) | set(reg.quantities.keys())
    dks.discard(())
    run.extra_cov["dimensionalities_in_database"] = len(dks)
    run.extra_cov["named_quantities"] = len(reg.quantities)
    bases = sorted(reg.base_units)
    extra = set()
    nrand = 150 if tier == "quick" else 30000
    attempts = 0
    while len(extra) < nrand and attempts < nrand * 20:     # the space of such products is finite: never spin on it
        attempts += 1
        d = {}
        for b in rng.sample(bases, rng.randrange(1, 4 if tier == "quick" else 6)):
            d[b] = rng.choice([-3, -2, -1, 1, 2, 3])
        extra.add(dims_key(d))
    # dimensionalities that cannot be a product of few named quantities (exponents 25..1000): factorize's depth limit and
    # memo are reached; whatever it lists must still multiply out (seeded change C17_d reported truncated products)
    big = set()
    nbig = 40 if tier == "quick" else 1500
    big_exps = [25, 49, 50, 51, 60, 75, 99, 100, 101, 150, 151, 200, 400, 777, 1000]
    attempts = 0
    while len(big) < nbig and attempts < nbig * 20:
        attempts += 1
        d = {}
        for b in rng.sample(bases, rng.choice([1, 1, 2, 3])):
            d[b] = rng.choice(big_exps) * rng.choice([1, 1, -1])
        big.add(dims_key(d))
    run.extra_cov["large_exponent_dimensionalities"] = len(big)
    extra |= big
    jobs = sorted(dks) + sorted(extra - dks)
    run.exhaustive = True
    rng.shuffle(jobs)
    for res in shard_map(work, split(jobs, nproc() * 4), (seed, 10 if tier == "quick" else 30)):
        run.merge(res)
    return run.finish()


if __name__ == "__main__":
    from lib.common import tier_seed
    a = tier_seed()
    sys.exit(run(a.tier, a.seed))
