"""C18 — sandbox: one reply per request, and recovery after any failure.

Fault enumeration with a client-boundary history monitor: sequences over {normal request, panic,
overrun of the time limit, allocation beyond the memory limit, child exit, large payload, payload
beyond the memory limit} are sent through the real `Sandbox::execute` by the `sbx-svc` driver,
which records call/return events; a sequential model decides every history offline."""
import itertools
import json
import os
import random
import subprocess
import sys
from concurrent.futures import ThreadPoolExecutor

from lib.common import Run
from lib.probe import TARGET, nproc, HarnessError

PACKAGES = ("sbx-svc",)
SBX = os.path.join(TARGET, "debug", "sbx-svc")
KINDS6 = ["add", "panic", "sleep", "alloc", "exit", "payload"]
KINDS7 = KINDS6 + ["huge"]
FAULTS = {"panic", "sleep", "alloc", "exit", "huge"}
MEM = 64 << 20
TIMEOUT_MS = 1500
EXPECT_ERR = {"panic": {"Panic", "Crashed"}, "sleep": {"Timeout"}, "alloc": {"Crashed"}, "exit": {"Crashed"},
              "huge": {"Crashed"}}


def steps_for(seq, gaps, rng):
    out = []
    for k, g in zip(seq, gaps):
        st = {"kind": k, "gap_ms": g}
        if k == "add":
            st.update(a=rng.randrange(-10 ** 6, 10 ** 6), b=rng.randrange(-10 ** 6, 10 ** 6))
        elif k == "sleep":
            st["arg"] = TIMEOUT_MS * 3
        elif k == "alloc":
            st["arg"] = MEM * 2
        elif k == "payload":
            st.update(kind="payload", arg=1 << 20)
        elif k == "huge":
            st.update(kind="payload", arg=MEM + (16 << 20))
        out.append(st)
    return out


def run_history(job):
    seq, gaps, seed = job
    rng = random.Random(seed)
    steps = steps_for(seq, gaps, rng)
    hist = {"config": {"memory_limit": MEM, "timeout_ms": TIMEOUT_MS}, "watchdog_ms": 20000, "steps": steps}
    for attempt in range(2):
        try:
            p = subprocess.run([SBX], input=json.dumps(hist).encode(), stdout=subprocess.PIPE, stderr=subprocess.DEVNULL,
                               timeout=60 + 25 * len(seq))
            out = p.stdout.decode(errors="replace")
            rc = p.returncode
            break
        except subprocess.TimeoutExpired as e:
            out, rc = (e.stdout or b"").decode(errors="replace"), "driver-timeout"
    events = []
    for line in out.splitlines():
        try:
            events.append(json.loads(line))
        except ValueError:
            pass
    return seq, gaps, steps, events, rc


def judge(run, seq, gaps, steps, events, rc):
    """sequential model over the recorded client-boundary history"""
    run.evaluations += 1
    wit = {"sequence": list(seq), "gaps_ms": list(gaps), "events": [e for e in events if e.get("event") == "return"][:12]}
    if any("harness_error" in e for e in events):
        raise HarnessError("sbx-svc: %r" % events)
    calls = {e["i"]: e for e in events if e.get("event") == "call"}
    rets = {}
    for e in events:
        if e.get("event") == "return":
            if e["i"] in rets:
                run.violation({"kind": "two_replies_for_one_request"}, wit, "")
                return
            rets[e["i"]] = e
    ok = True
    last_ok_pid = None
    fault_since_ok = False
    for i, k in enumerate(seq):
        if i not in calls:
            # the driver stopped early (after an unanswered request)
            break
        r = rets.get(i)
        shape = "after:" + ",".join(seq[max(0, i - 2):i]) if i else "first"
        if r is None or r["outcome"] == "no_reply":
            run.violation({"kind": "no_reply_within_watchdog", "request": k, "preceded_by": seq[i - 1] if i else None},
                          dict(wit, index=i), "a request received no reply")
            return
        if k in ("add", "payload"):
            want = steps[i]["a"] + steps[i]["b"] if k == "add" else steps[i]["arg"]
            if r["outcome"] != "ok":
                run.violation({"kind": "normal_request_failed", "error": r.get("error"), "preceded_by": seq[i - 1] if i else None},
                              dict(wit, index=i, reply=r),
                              "a normal request was not served although only an earlier request was faulty")
                ok = False
                # the sandbox may have restarted now; continue judging the rest
                fault_since_ok = True
                continue
            if r["id"] != calls[i]["id"]:
                run.violation({"kind": "reply_of_another_request", "stale": r["id"] < calls[i]["id"]},
                              dict(wit, index=i, reply=r), "a reply carries another request's id")
                return
            if r["value"] != want:
                run.violation({"kind": "wrong_result"}, dict(wit, index=i, reply=r, expected=want), "")
                ok = False
            if last_ok_pid is not None:
                if fault_since_ok and r["pid"] == last_ok_pid:
                    run.violation({"kind": "child_not_restarted_after_fault"}, dict(wit, index=i), "")
                    ok = False
                if not fault_since_ok and r["pid"] != last_ok_pid:
                    run.violation({"kind": "child_restarted_without_fault"}, dict(wit, index=i), "")
                    ok = False
            last_ok_pid = r["pid"]
            fault_since_ok = False
        else:
            fault_since_ok = True
            if r["outcome"] == "ok":
                run.violation({"kind": "faulty_request_reported_ok", "request": k}, dict(wit, index=i, reply=r), "")
                ok = False
            elif r.get("error") not in EXPECT_ERR[k]:
                run.violation({"kind": "error_does_not_name_the_fault", "request": k, "error": r.get("error")},
                              dict(wit, index=i, reply=r), "the error does not say what happened to the request")
                ok = False
    if len(rets) != len(calls):
        run.violation({"kind": "reply_count_differs"}, wit, "")
        ok = False
    if rc not in (0,):
        run.inconclusive_event("driver exit %s" % rc, {"sequence": list(seq)})
        return
    if ok:
        run.count("histories_ok")
        if any(k in FAULTS for k in seq[:-1]):
            run.seen(",".join(seq) + "|" + ",".join(map(str, gaps)))
        for k in set(seq):
            run.count("kind:" + k)
        if len(run.samples) < 6:
            run.sample({"sequence": list(seq), "gaps_ms": list(gaps),
                        "replies": [(e["outcome"], e.get("error") or e.get("value")) for e in wit["events"]]})


def run(tier, seed):
    run = Run("C18", tier, seed, "fault_enumeration", floor=50)
    run.rule = ("request sequences over {add, panic, sleep past the time limit, allocate twice the memory limit, exit, 1 MiB payload, "
                "payload above the memory limit} sent through the real Sandbox::execute, each fault in every position, gaps of "
                "0 / 50 ms / 1 s between requests; call and return events recorded at the client boundary and judged by a "
                "sequential model (own id, own result or an error naming the fault, pid changes exactly after faults); "
                "non-trivial = distinct (sequence, gap schedule) containing at least one fault followed by a request")
    run.assumptions = ["service time limit %d ms, child memory limit %d MiB; a panic may be reported as Panic or Crashed" % (TIMEOUT_MS, MEM >> 20),
                       "per-call watchdog 20 s; a driver-level timeout is inconclusive, not a violation",
                       "Ctrl-C handling is outside the statement"]
    rng = random.Random(seed)
    jobs = []
    if tier == "quick":
        for n in (1, 2, 3):
            for seq in itertools.product(KINDS7, repeat=n):
                jobs.append((seq, tuple(rng.choice([0, 0, 50]) for _ in seq), rng.randrange(1 << 30)))
        for _ in range(60):
            seq = tuple(rng.choice(KINDS7) for _ in range(5))
            jobs.append((seq, tuple(rng.choice([0, 50, 1000]) for _ in seq), rng.randrange(1 << 30)))
        run.extra_cov["enumeration"] = "all sequences of length <= 3 over 7 kinds + 60 sampled sequences of length 5"
    else:
        for n in (1, 2, 3, 4, 5):
            for seq in itertools.product(KINDS6, repeat=n):
                for sched in ("tight", "mixed"):
                    gaps = tuple(0 for _ in seq) if sched == "tight" else tuple(rng.choice([50, 1000, 0]) for _ in seq)
                    jobs.append((seq, gaps, rng.randrange(1 << 30)))
        for n in (1, 2, 3):
            for seq in itertools.product(KINDS7, repeat=n):
                if "huge" in seq:
                    jobs.append((seq, tuple(rng.choice([0, 50, 1000]) for _ in seq), rng.randrange(1 << 30)))
        run.extra_cov["enumeration"] = "all sequences of length <= 5 over 6 kinds x 2 gap schedules + all length <= 3 containing the over-limit payload"
        run.exhaustive = True
    rng.shuffle(jobs)
    with ThreadPoolExecutor(max_workers=nproc()) as ex:
        for res in ex.map(run_history, jobs):
            judge(run, *res)
    run.extra_cov["histories"] = len(jobs)
    return run.finish()


if __name__ == "__main__":
    from lib.common import tier_seed
    a = tier_seed()
    sys.exit(run(a.tier, a.seed))
