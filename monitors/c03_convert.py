"""C03 — conversions are exact and refuse non-conformable targets.

Reference-model monitor: every `v -> t` is judged against exact values computed by the
independent evaluator from the dumped unit values; mismatching dimensionalities must give
a conformance error whose suggestions name the right factor."""
import itertools
import random
import re
import sys
from fractions import Fraction

from lib import refexpr as R
from lib import parts as P
from lib.common import Part, Run, panic_sig
from lib.probe import shard_map, split, worker_probe, nproc, HarnessError
from lib.registry import Registry, num_val, dims_key, render_name, KEYWORDS

_REG = None


def get_reg(probe):
    global _REG
    if _REG is None:
        d = probe.request({"op": "dump", "ctx": probe.ctx("bundled")}, timeout=120)
        _REG = Registry(d["dump"])
    return _REG


def frac_of(raw):
    return Fraction(int(raw["n"]), int(raw["d"]))


def lit(fr):
    """A rational as query text that denotes exactly fr (parenthesised)."""
    if fr.denominator == 1:
        return "(%d)" % fr.numerator if fr >= 0 else "(-%d)" % -fr.numerator
    if fr < 0:
        return "(-%d/%d)" % (-fr.numerator, fr.denominator)
    return "(%d/%d)" % (fr.numerator, fr.denominator)


def quantity_env(reg):
    def env(name):
        if name in reg.quantity_dims:
            return R.Val(Fraction(1), dict(reg.quantity_dims[name]))
        return None
    return env


def check_suggestions(part, reg, ldims, rdims, err, wit):
    sugg = err.get("suggestions") or []
    prod = R.dmul(ldims, rdims)
    if not prod:
        if not any("Reciprocal conversion" in s for s in sugg):
            part.violation({"kind": "reciprocal_not_flagged"}, dict(wit, suggestions=sugg),
                           "reciprocal mismatch without the reciprocal suggestion")
            return False
        part.count("suggestion:reciprocal")
        return True
    if not sugg:
        part.violation({"kind": "no_suggestion"}, wit, "conformance error names no missing factor")
        return False
    env = quantity_env(reg)
    for s in sugg:
        m = re.match(r"^(multiply|divide) (left|right) side by (.+)$", s)
        if not m:
            part.violation({"kind": "suggestion_unreadable"}, dict(wit, suggestion=s), "")
            return False
        verb, side, desc = m.groups()
        try:
            f = R.evaluate(R.parse(desc), env).d
        except (R.SyntaxErr, R.OutOfScope, R.DimErr, R.Undefined) as e:
            part.count("suggestion_not_parsed")
            continue
        sign = 1 if verb == "multiply" else -1
        if side == "left":
            ok = dims_key(R.dmul(ldims, f, sign)) == dims_key(rdims)
        else:
            ok = dims_key(R.dmul(rdims, f, sign)) == dims_key(ldims)
        if not ok:
            part.violation({"kind": "suggestion_names_wrong_factor"},
                           dict(wit, suggestion=s, left=ldims, right=rdims),
                           "following the suggestion does not make the sides conformable")
            return False
        part.count("suggestion:factor_checked")
    return True


def judge(part, probe, reg, query, lv, rv, tag, roundtrip=None):
    """lv, rv: reference Val of source and target (exact) or None when the reference abstains."""
    part.evaluations += 1
    r = probe.eval(query, timeout=30, spans=False, json=False)
    if "timeout" in r or "died" in r:
        r = probe.eval(query, timeout=90)
        if "timeout" in r or "died" in r:
            part.violation({"kind": "no_reply", "how": "timeout" if "timeout" in r else "died"},
                           {"query": query}, "no reply to a conversion")
            return None
    if r.get("panics"):
        p = r["panics"][0]
        part.violation(panic_sig(p), {"query": query, "panic": p}, "panic in a conversion")
        return None
    rep = r.get("r") or {}
    kind = rep.get("kind")
    wit = {"query": query, "reply": (r.get("text") or "")[:300], "case": tag}
    if kind == "err_generic" and "to timezone" in rep.get("message", ""):
        part.count("target_is_timezone_name")
        return None
    if lv is None or rv is None:
        part.count("reference_abstains")
        return None
    conform = dims_key(lv.d) == dims_key(rv.d)
    if not conform:
        part.count("expect_refusal")
        if kind in ("conversion", "number", "unitlist", "duration"):
            part.violation({"kind": "number_for_nonconformable"}, wit,
                           "a number was returned for a non-conformable conversion")
            return None
        if kind != "err_conformance":
            part.violation({"kind": "wrong_error_family", "got": kind, "message": _norm(rep.get("message"))}, wit,
                           "dimension mismatch not reported as a conformance error")
            return None
        if check_suggestions(part, reg, lv.d, rv.d, rep["err"], wit):
            part.count("refused_ok")
            part.seen(tag + "|" + query)
        return None
    if rv.v == 0:
        part.count("zero_target")
        return None
    if kind != "conversion":
        part.violation({"kind": "conformable_not_converted", "got": kind, "message": _norm(rep.get("message"))}, wit,
                       "conformable conversion did not succeed")
        return None
    raw = rep["value"]["raw"]
    want = lv.v / rv.v
    if lv.f or rv.f:
        # a float-valued unit or a root takes part: x*t = v is judged to float precision,
        # as long as all three numbers are comfortably inside the range of a machine float
        if not all(Fraction(1, 10 ** 250) < abs(z) < Fraction(10) ** 250 for z in (lv.v, rv.v, want)):
            part.count("float_case_outside_float_range")
            return None
        if "n" not in raw:
            part.violation({"kind": "float_conversion_not_finite"}, dict(wit, raw=raw), "")
            return None
        got = frac_of(raw)
        if abs(got - want) > abs(want) * Fraction(1, 10 ** 9):
            part.violation({"kind": "float_conversion_factor_wrong", "case": tag},
                           dict(wit, expected=float(want), got=float(got)), "x * t != v (beyond float precision)")
            return None
        part.count("float_converted_ok")
        part.seen(tag + "|" + query)
        return None
    if raw.get("f"):
        part.violation({"kind": "float_conversion_factor"}, dict(wit, raw=raw), "float result for exact units")
        return None
    got = frac_of(raw)
    if got != want:
        part.violation({"kind": "wrong_conversion_factor", "case": tag},
                       dict(wit, expected=str(want), got=str(got)),
                       "x * t != v")
        return None
    # "converting x t back returns v": the target as the reply states it (constant factor, divisor and unit
    # names, read the way rink reads names) times x must be the source value
    np_ = rep["value"]
    try:
        uv, ud = P.unit_product(reg, P.structured_units(np_))
        f = Fraction(int(np_["factor"])) if np_.get("factor") else Fraction(1)
        dv = Fraction(int(np_["divfactor"])) if np_.get("divfactor") else Fraction(1)
        if dv != 0 and (got * f * uv / dv != lv.v or dims_key(ud) != dims_key(lv.d)):
            part.violation({"kind": "stated_target_times_x_differs", "case": tag.split(":")[0]},
                           dict(wit, x=str(got), factor=np_.get("factor"), divfactor=np_.get("divfactor"),
                                unit=np_.get("unit"), source=str(lv.v)),
                           "x times the target as stated in the reply is not the source value")
            return None
        part.count("stated_target_checked")
        # the number as *printed* (exact numeral and approximation), times the target as stated, is the source value
        problems = P.check_parts(np_, reg, quantity=lv.v, qdims=lv.d)
        if problems:
            kind, detail = problems[0]
            part.violation({"kind": "reported_" + kind, "case": tag.split(":")[0]}, dict(wit, detail=detail),
                           "the number printed in the reply times the target is not the source value")
            return None
        part.count("printed_number_checked")
    except (P.Unjudgeable, R.OutOfScope, ValueError):
        part.count("stated_target_unjudgeable")
    part.count("converted_ok")
    part.seen(tag + "|" + query)
    part.sample({"query": query, "x": str(want)[:60]})
    return got


def work_pairs(idx, chunk, seed, do_roundtrip):
    probe = worker_probe()
    reg = get_reg(probe)
    part = Part()
    for (a, b, tag) in chunk:
        la, _ = reg.lookup(a)
        lb, _ = reg.lookup(b)
        ra, rb = render_name(a), render_name(b)
        if ra is None or rb is None or b in KEYWORDS:
            part.count("unrenderable_name")
            continue
        if a in ("units", "factorize", "search"):
            ra = "(%s)" % ra       # a leading command word would select another query form
        if la is None or lb is None:
            part.count("model_unresolved")
            continue
        if la.f or lb.f:
            if la.nan or lb.nan or lb.v == 0:
                continue
            judge(part, probe, reg, "%s -> %s" % (ra, rb), la, lb, tag + ":float")
            continue
        x = judge(part, probe, reg, "%s -> %s" % (ra, rb), la, lb, tag)
        if x is not None and do_roundtrip and x != 0:
            # (x t) converted back to v's own unit returns v, i.e. exactly 1 of it
            judge(part, probe, reg, "%s %s -> %s" % (lit(x), rb, ra), R.Val(x * lb.v, lb.d), la, tag + ":roundtrip")
    return part.export()


# ------------------------------------------------------------------ compound cases

def rand_coeff(rng):
    r = rng.random()
    if r < 0.4:
        return None
    if r < 0.6:
        return str(rng.randrange(2, 1000))
    if r < 0.8:
        return "%d|%d" % (rng.randrange(1, 50), rng.randrange(2, 50))
    return "%d.%d" % (rng.randrange(0, 100), rng.randrange(1, 1000))


SIMPLE_FAMILIES = [("ft", "inch"), ("yard", "ft"), ("mile", "yard"), ("hour", "min"), ("day", "hour"), ("week", "day"), ("m", "ft"),
                   ("lb", "oz"), ("gallon", "quart"), ("km", "mile"), ("kg", "lb"), ("liter", "gallon"), ("acre", "m^2")]


def gen_compound(rng, reg, classes, class_list):
    """(source text, target text) with the target conformable by construction most of the time."""
    if rng.random() < 0.12:
        # small numbers in familiar units: results that print as short fractions p/q, both signs
        a, b = rng.choice(SIMPLE_FAMILIES)
        if rng.random() < 0.5:
            a, b = b, a
        return ("%s%d %s" % (rng.choice(["", "", "-"]), rng.randrange(1, 30), a),
                "%s%s" % (rng.choice(["", "%d " % rng.randrange(2, 40), "-%d " % rng.randrange(2, 40)]), b))
    nf = rng.randrange(1, 4)
    src, tgt = [], []
    for _ in range(nf):
        names = classes[rng.choice(class_list)]
        u = rng.choice(names)
        u2 = rng.choice(names)
        p = rng.choice([1, 1, 1, 2, 3, -1, -2])
        src.append((u, p))
        tgt.append((u2, p))
    mismatch = rng.random() < 0.25
    if mismatch:
        i = rng.randrange(len(tgt))
        u2, p = tgt[i]
        tgt[i] = (u2, p + rng.choice([1, -1, 2]))
    def fmt(parts, allow_prefix):
        num, den = [], []
        for u, p in parts:
            name = u
            if allow_prefix and rng.random() < 0.2 and u.isalpha():
                name = rng.choice(["kilo", "milli", "mega", "micro", "k", "m"]) + u
            if rng.random() < 0.15 and name.isalpha():
                name = name + "s"
            rn = render_name(name)
            if rn is None:
                return None
            if p == 0:
                continue
            t = rn if abs(p) == 1 else "%s^%d" % (rn, abs(p))
            (num if p > 0 else den).append(t)
        s = " ".join(num) if num else "1"
        if den:
            s += " / " + " ".join(den)
        return s
    s, t = fmt(src, True), fmt(tgt, True)
    if s is None or t is None:
        return None
    c = rand_coeff(rng)
    if c:
        s = c + " " + s
    if rng.random() < 0.2:
        s = "-" + (s if c else "1 " + s)          # negative sources
    r = rng.random()
    if r < 0.25:
        t = "%s %s" % (rng.choice(["2", "12", "1|3", "0.5", "-3"]), t) if "/" not in t else t
    elif r < 0.35 and "/" not in t:
        t = "%s/%d" % (t, rng.randrange(2, 9))
    elif r < 0.45:
        t = "newname%d = %s" % (rng.randrange(100), t)
    elif r < 0.55 and len(tgt) == 1 and not mismatch:
        # a constant under a (negative) power: (2 s)^-1, 10^-3 m, (1|2 ft)^-2
        u2, p = tgt[0]
        rn = render_name(u2)
        if rn is not None:
            k = rng.choice(["2", "10", "1|2", "3"])
            if rng.random() < 0.5:
                t = "(%s %s)^%d" % (k, rn, p)
            else:
                t = "%s^%d %s^%d" % (k if "|" not in k else "(" + k + ")", p, rn, p)
    elif r < 0.6 and "/" not in t and "/" not in s:
        # targets / sources built with roots: rink computes those in machine floats
        k = rng.choice([2, 3])
        if rng.random() < 0.5:
            t = "(%d (%s)^%d)^(1|%d)" % (rng.choice([4, 8, 9, 27, 2]), t, k, k)
        else:
            s = "(%d (%s)^%d)^(1|%d)" % (rng.choice([4, 8, 9, 27, 2]), s, k, k)
    return s, t


def work_compound(idx, chunk, seed, n):
    probe = worker_probe()
    reg = get_reg(probe)
    part = Part()
    rng = random.Random((seed << 10) ^ (idx + 7))
    env = reg.env()
    classes = {k: v for k, v in reg.dim_classes().items() if k}
    class_list = sorted(classes)
    made = 0
    while made < n:
        g = gen_compound(rng, reg, classes, class_list)
        if g is None:
            continue
        s, t = g
        made += 1
        query = "%s -> %s" % (s, t)
        try:
            lv = R.evaluate(R.parse(s), env)
            rv = R.evaluate(R.parse(t), env)
        except (R.OutOfScope, R.Undefined, R.DimErr, R.SyntaxErr):
            part.count("compound_reference_abstains")
            continue
        judge(part, probe, reg, query, lv, rv, "compound")
        if made % 20 == 0 and dims_key(lv.d) == dims_key(rv.d):
            # whatever follows a complete target is part of the query: it must not be dropped silently
            extra = rng.choice([" /* note */ s", " /**/ kg", ", s", " )", " -> inch", "\ns", " ; 5", " = = 2"])
            q2 = query + extra
            part.evaluations += 1
            r2 = probe.eval(q2, timeout=30, spans=False, json=False)
            k2 = (r2.get("r") or {}).get("kind", "")
            if r2.get("panics"):
                part.violation(panic_sig(r2["panics"][0]), {"query": q2, "panic": r2["panics"][0]}, "panic in a conversion")
            elif k2 in ("conversion", "number") and extra.strip() not in ("/* note */", ):
                part.violation({"kind": "tokens_after_target_ignored", "extra": extra.strip()[:12]},
                               {"query": q2, "reply": (r2.get("text") or "")[:200]},
                               "a conversion was answered although more tokens follow the target")
            else:
                part.count("tokens_after_target_refused")
                part.seen("trailing|" + extra)
    return part.export()


def _norm(m):
    m = re.sub(r"<[^>]*>", "<..>", m or "")
    return re.sub(r"\d+", "N", m)[:80]


def run(tier, seed):
    run = Run("C03", tier, seed, "exploration", floor=1000)
    run.rule = ("ordered pairs of database units: conformable pairs must convert with x = value(v)/value(t) exactly "
                "(and x t -> v's unit gives 1), pairs from different dimensionalities (incl. reciprocal pairs) must "
                "give a conformance error whose suggestion, followed literally, makes the sides conformable; compound "
                "sources/targets with prefixes, plurals, powers, constants (also under +-powers and roots), negative sources and inline "
                "definitions; the number as printed (exact numeral and approximation) times the target as stated must be the source; "
                "tokens after a complete target must be refused; non-trivial = "
                "distinct query whose reply was judged against the reference")
    run.assumptions = ["unit values come from the loaded database (C08 judges them)",
                       "conversions through a float-valued unit or a root are judged to a relative 1e-9 inside 1e-250..1e250",
                       "names rink cannot read as one identifier are written \"quoted\"; targets that are timezone names or "
                       "conversion keywords are skipped"]
    probe = worker_probe()
    reg = get_reg(probe)
    classes = reg.dim_classes()
    rng = random.Random(seed)
    pairs = []
    total_conformable = sum(len(v) * len(v) for v in classes.values())
    run.extra_cov["conformable_ordered_pairs_in_database"] = total_conformable
    run.extra_cov["dimensionality_classes"] = len(classes)
    keys = sorted(classes)
    if tier == "thorough":
        for k in keys:
            for a, b in itertools.product(classes[k], repeat=2):
                pairs.append((a, b, "pair"))
        run.exhaustive = True
        n_mis = 200000
        n_compound = 1000000 // nproc()
        do_rt = False
        rt_pairs = 250000
    else:
        # every class: all pairs if small, else a rotating sample; every unit appears at least once as source and target
        for k in keys:
            names = classes[k]
            if len(names) ** 2 <= 2500:
                for a, b in itertools.product(names, repeat=2):
                    pairs.append((a, b, "pair"))
            else:
                for a in names:
                    pairs.append((a, rng.choice(names), "pair"))
                    pairs.append((rng.choice(names), a, "pair"))
                for _ in range(4000):
                    pairs.append((rng.choice(names), rng.choice(names), "pair"))
        run.exhaustive = False
        n_mis = 12000
        n_compound = 20000 // nproc() + 1
        do_rt = True
        rt_pairs = 0
    # float-valued units (defined through roots): against every unit of their dimensionality, both directions
    floats = []
    for n in reg.all_names():
        v = reg.lookup_exact(n)
        if v is not None and v.f and not v.nan:
            k = dims_key(v.d)
            for other in classes.get(k, [])[:400]:
                floats.append((n, other, "float-unit"))
                floats.append((other, n, "float-unit"))
            for n2 in reg.all_names():
                v2 = reg.lookup_exact(n2)
                if v2 is not None and v2.f and dims_key(v2.d) == k:
                    floats.append((n, n2, "float-unit"))
    run.extra_cov["float_valued_unit_pairs"] = len(floats)
    # mismatches: each unit against a unit of another class and against its reciprocal class
    allnames = [n for k in keys for n in classes[k]]
    name_class = {n: k for k in keys for n in classes[k]}
    recip = {k: tuple(sorted((b, -p) for b, p in k)) for k in keys}
    mism = []
    for a in allnames:
        k = name_class[a]
        other = rng.choice(keys)
        if other != k:
            mism.append((a, rng.choice(classes[other]), "mismatch"))
        rk = recip[k]
        if rk in classes and rk != k:
            mism.append((a, rng.choice(classes[rk]), "reciprocal"))
    while len(mism) < n_mis:
        a = rng.choice(allnames)
        other = rng.choice(keys)
        if other != name_class[a]:
            mism.append((a, rng.choice(classes[other]), "mismatch"))
    # prefixed/plural single-unit pairs
    pref = []
    pres = [p for p, _ in reg.prefixes]
    for _ in range(len(pairs) // 3 + 500):
        k = rng.choice(keys)
        a, b = rng.choice(classes[k]), rng.choice(classes[k])
        a2 = rng.choice(pres) + a + rng.choice(["", "s"])
        b2 = rng.choice(pres) + b + rng.choice(["", "s"])
        pref.append((a2, b2, "prefixed"))
    jobs = pairs + mism + pref + floats
    rng.shuffle(jobs)
    for res in shard_map(work_pairs, split(jobs, nproc() * 8), (seed, do_rt)):
        run.merge(res)
    if rt_pairs:
        sample = rng.sample(pairs, min(rt_pairs, len(pairs)))
        for res in shard_map(work_pairs, split(sample, nproc() * 4), (seed, True)):
            run.merge(res)
    for res in shard_map(work_compound, [None] * nproc(), (seed, n_compound)):
        run.merge(res)
    run.extra_cov["single_unit_pairs_issued"] = len(pairs)
    return run.finish()


if __name__ == "__main__":
    from lib.common import tier_seed
    a = tier_seed()
    sys.exit(run(a.tier, a.seed))
