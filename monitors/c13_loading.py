"""C13 — loading arbitrary definition text is safe and reports its problems.

Event + invariant monitor: mutated bundled files, generated definition files, synthetic cycles
and alias chains, damaged currency JSON and date-pattern files are loaded by the real loader;
panics/aborts/hangs are events, every dropped entry must be accounted for by a message, and the
resulting context must still answer queries."""
import json
import random
import re
import sys

from lib.common import Part, Run, panic_sig
from lib.probe import shard_map, worker_probe, nproc, HarnessError

TOK_INSERT = ["!", "?", "{", "}", "(", ")", "^", "/", "*", "|", "-", "+", "1e999", "0", "1|0", "??", "#", "\\", "!category", "!endcategory",
              "!symbol", "!foo", "const", "--", "- 1e3", "'", "\"", "π", "=", "1/0", "0^-1", "sqrt(-1)", "now", "ans", "#2020-01-01#"]


def defined_names(dump):
    names = set(dump["units"]) | set(dump["base_units"]) | set(dump["substances"]) | set(dump["category_names"])
    names |= {p for p, _ in dump["prefixes"]} | {n for _, n in dump["quantities"]} | set(dump["long_names"].values())
    return names


def load(probe, steps, timeout):
    r = probe.request({"op": "load", "steps": steps}, timeout=timeout)
    return r


def judge_load(part, probe, text_steps, what, budget, expect_cycle=False, entries_text=None):
    """Load, then check: no panic/no hang; dropped entries are reported; context answers queries."""
    part.evaluations += 1
    r = load(probe, text_steps, budget)
    wit = {"what": what, "steps": [{k: (v[:600] if isinstance(v, str) else v) for k, v in st.items()} for st in text_steps]}
    if "timeout" in r or "died" in r:
        how = "timeout" if "timeout" in r else "died:%s" % r.get("died")
        r2 = load(probe, text_steps, budget * 3)
        if "timeout" in r2 or "died" in r2:
            how2 = "timeout" if "timeout" in r2 else "died:%s" % r2.get("died")
            shape = what if what.endswith(":deep_expr") or what.startswith("deep-nesting") else what.split(":")[0]
            part.violation({"kind": "load_no_reply", "how": how2, "what": shape}, dict(wit, first=how),
                           "loading does not terminate or aborts the process")
            return None
        r = r2
    if "ctx" not in r:
        raise HarnessError("load: %r" % (r,))
    cid = r["ctx"]
    msgs = ""
    for res in r["results"]:
        if "panic" in res:
            part.violation(panic_sig(res["panic"]), dict(wit, panic=res["panic"]), "panic while loading")
            probe.request({"op": "dropctx", "ctx": cid})
            return None
        msgs += (res.get("err") or "") + "\n" + (res.get("diag") or "") + "\n"
    part.count("load_ok" if all(x["ok"] for x in r["results"]) else "load_reported_errors")
    fam = re.sub(r"\d+", "N", re.sub(r"(unit|prefix|quantity|category|Substance|Def|Quantity|Prefix) [^ :]+", r"\1 X", (msgs.strip().split("\n") + [""])[1 if "Multiple errors" in msgs else 0]))[:60]
    if fam:
        part.seen("msg|" + fam)
    if expect_cycle and "dependency cycle" not in msgs:
        part.violation({"kind": "cycle_not_reported", "what": what.split(":")[0]}, dict(wit, messages=msgs[:500]),
                       "a dependency cycle was not reported")
    d = probe.request({"op": "dump", "ctx": cid}, timeout=120)
    if "dump" not in d:
        part.violation(panic_sig(d["panic"]) if "panic" in d else {"kind": "dump_failed"}, wit, "context unusable after load")
        probe.request({"op": "dropctx", "ctx": cid})
        return None
    dump = d["dump"]
    # every definition of the input is either present or mentioned in a message
    if entries_text is not None:
        e = probe.request({"op": "defs", "text": entries_text}, timeout=120)
        if "defs" in e:
            have = defined_names(dump)
            for ent in e["defs"]:
                n = ent["name"]
                if n in have or n in msgs:
                    continue
                part.violation({"kind": "entry_dropped_silently", "entry_kind": ent["kind"]},
                               dict(wit, name=n, messages=msgs[:400]),
                               "a definition neither loaded nor was reported")
                break
            else:
                part.count("all_entries_accounted_for")
        elif "panic" in e:
            part.violation(panic_sig(e["panic"]), dict(wit, panic=e["panic"]), "panic while parsing definitions")
    if not dump["temporaries_empty"]:
        part.violation({"kind": "temporaries_left_after_load"}, wit, "")
    # a definition whose exponent is not a whole number cannot be stored exactly: it must have been refused
    kept = [pn for pn, _ in dump["prefixes"] if re.fullmatch(r"pf\d+", pn)] + [qn for _, qn in dump["quantities"] if re.fullmatch(r"qf\d+", qn)]
    if kept:
        part.violation({"kind": "fractional_exponent_definition_loaded", "what": "prefix" if kept[0].startswith("p") else "quantity"},
                       dict(wit, names=kept[:5]), "a prefix / quantity defined with a non-integer exponent was loaded (with a truncated exponent)")
    # the context still answers queries, about what did load and about what did not
    probes = ["1 + 1"]
    names = sorted(defined_names(dump))
    rng = random.Random(len(msgs) + len(names))
    for n in rng.sample(names, min(6, len(names))):
        if re.fullmatch(r"[A-Za-z_][A-Za-z0-9_]*", n):
            probes += [n, "3 %s" % n, "1 %s -> %s" % (n, n), "units for %s" % n]
    for sym in [x for x in sorted(dump.get("symbols", {})) if re.fullmatch(r"[A-Za-z]+", x)][:3]:     # `1e99999` + `2` would be a number
        probes += ["%s2" % sym, "molar_mass of %s3%s" % (sym, sym), "%s -> kg" % sym]
    probes += ["5 degC", "300 K -> degC", "2 degF -> degRe", "2 hours", "1000 b0", "1 / b0", "5 b0^-2", "0.001 b0", "1000 m", "1/m",
               "search ans", "search _", "3 kg", "5000 byte", "5 tonne"]
    probes += ["brokenname + 1", "3 u0 -> u1", "mass of (2 s0)", "s0", "zork", "aa", "bb", "cc", "alias1", "3 aa -> bb", "units for zork",
               "1 zork -> alias1"]
    for s_name in list(dump["substances"])[:3]:
        if re.fullmatch(r"[A-Za-z_][A-Za-z0-9_]*", s_name):
            probes.append(s_name)
            for pn, pp in list(dump["substances"][s_name]["props"].items())[:3]:
                for nm in (pn, pp["input_name"], pp["output_name"]):
                    if re.fullmatch(r"[A-Za-z_][A-Za-z0-9_]*", nm):
                        probes.append("%s of %s" % (nm, s_name))
                        probes.append("%s of (2 %s)" % (nm, s_name))
    for q in probes[:80]:
        a = probe.request({"op": "eval", "ctx": cid, "q": q}, timeout=30)
        if "timeout" in a or "died" in a:
            part.violation({"kind": "query_after_load_no_reply", "how": "timeout" if "timeout" in a else "died"},
                           dict(wit, query=q), "a query on a partially loaded context hangs or aborts")
            return None
        if a.get("panics"):
            p = a["panics"][0]
            part.violation(panic_sig(p), dict(wit, query=q, panic=p), "a query on a partially loaded context panics")
            break
    else:
        h = probe.request({"op": "eval", "ctx": cid, "q": "1 + 1"}, timeout=30)
        if (h.get("r") or {}).get("kind") == "number":
            part.count("context_answers_after_load")
    probe.request({"op": "dropctx", "ctx": cid})
    return msgs


# ---------------------------------------------------------------- generators

NAMED_IN_CODE = ["zerocelsius", "zerofahrenheit", "kelvin", "degrankine", "reaumur_absolute", "romer_absolute", "delisle_absolute",
                 "newton_absolute", "K", "year", "week", "day", "hour", "minute", "second", "s", "kg", "mol", "bit", "radian", "kilo-",
                 "milli-", "byte", "gram", "tonne", "percent"]


def mutate_lines(rng, lines):
    lines = list(lines)
    kind = rng.choice(["delete_line", "dup_line", "swap_lines", "delete_token", "dup_token", "insert_token", "truncate",
                       "delete_block", "crlf", "join_lines", "delete_named", "redefine_named"])
    i = rng.randrange(len(lines))
    if kind in ("delete_named", "redefine_named"):
        # definitions the evaluator looks up by name (temperature scales, the duration breakdown, SI prefixes, kg/bit special
        # cases): take one away, or give it another value / dimension
        name = rng.choice(NAMED_IN_CODE)
        idxs = [k for k, l in enumerate(lines) if l.split(" ")[0] == name or l.startswith(name + "\t")]
        if idxs:
            k = rng.choice(idxs)
            if kind == "delete_named":
                del lines[k]
            else:
                lines[k] = "%s %s" % (name, rng.choice(["0", "3 m", "1", "-1", "s", "2 kg"]))
        return kind + ":" + name.rstrip("-"), "\n".join(lines) + "\n"
    if kind == "delete_line":
        del lines[i]
    elif kind == "dup_line":
        lines.insert(i, lines[i])
    elif kind == "swap_lines":
        j = rng.randrange(len(lines))
        lines[i], lines[j] = lines[j], lines[i]
    elif kind in ("delete_token", "dup_token", "insert_token"):
        for _ in range(50):
            if lines[i].split():
                break
            i = rng.randrange(len(lines))
        toks = lines[i].split(" ")
        k = rng.randrange(len(toks))
        if kind == "delete_token":
            del toks[k]
        elif kind == "dup_token":
            toks.insert(k, toks[k])
        else:
            toks.insert(k, rng.choice(TOK_INSERT))
        lines[i] = " ".join(toks)
    elif kind == "truncate":
        lines = lines[:i] + [lines[i][:rng.randrange(len(lines[i]) + 1)]]
    elif kind == "delete_block":
        del lines[i:i + rng.randrange(2, 40)]
    elif kind == "crlf":
        lines = [l + "\r" for l in lines]
    else:
        lines[i] = lines[i] + " \\"
    return kind, "\n".join(lines) + "\n"


def gen_file(rng):
    """grammar-directed random definitions file (units, both prefix kinds, quantities, substances with
    const/ratio properties incl. zero/negative/mismatched ones, categories, docs, pragmas)."""
    out = []
    bases = ["b%d" % i for i in range(rng.randrange(1, 4))]
    for b in bases:
        out.append("%s !%s" % (b, b + "long") if rng.random() < 0.5 else "%s !" % b)
    units = list(bases)
    vals = ["2", "0", "-3", "1|3", "1e-3", "1.5", "0.0", "1e999", "1|0", "2^70"]
    for i in range(rng.randrange(3, 30)):
        r = rng.random()
        if r < 0.35:
            e = "%s %s" % (rng.choice(vals), rng.choice(units))
            if rng.random() < 0.3:
                e += " / %s" % rng.choice(units + ["0", "missing%d" % i])
            name = "u%d" % i
            out.append("%s %s" % (name, e))
            units.append(name)
        elif r < 0.45:
            pv = rng.choice(vals + ["p%d" % rng.randrange(30), "b0", "1 b0"])
            if rng.random() < 0.4:
                # prefix arithmetic: powers (negative, zero, huge), quotients and negations of constants and other prefixes
                pn = "p%d" % rng.randrange(30)
                small = ["-1", "0", "2", "-2", "1|2", pn]
                pv = rng.choice(["%s^%s" % (a, b) for a in ["2", "10", pn, "1|3"] for b in small] +
                                # huge exponents only where the result stays small
                                ["%s^%s" % (a, b) for a in ["0", "0.0", "1"] for b in small + ["2147483647", "2147483648", "-2147483648"]] +
                                ["1|%s" % a for a in ["0", pn]] + ["-" + pn])
            out.append("p%d%s %s" % (i, rng.choice(["-", "--"]), pv))
            if rng.random() < 0.25:
                out.append("%s- %s" % (rng.choice(["kilo", "milli", "mega", "micro", "nano", "giga"]), rng.choice(["0", "-1", "0.0", "1e3", "1|0"])))
            if rng.random() < 0.25:
                # an exponent that is not a whole number cannot be honoured: the definition must be refused, not truncated
                out.append("pf%d- %s" % (i, rng.choice(["10^0.5", "4^(1|2)", "2^2.5", "10^-0.5", "9^(3|2)"])))
                out.append("qf%d ? %s^%s" % (i, bases[0], rng.choice(["2.5", "0.5", "(1|2)", "-1.5"])))
            if rng.random() < 0.15:
                out.append("%s %s %s" % (rng.choice(["ans", "_", "ANS"]), rng.choice(vals), rng.choice(units)))
        elif r < 0.55:
            out.append("q%d ? %s" % (i, rng.choice([rng.choice(bases), "%s^2" % bases[0], "%s / %s" % (bases[0], bases[-1]),
                                                  "q%d %s" % (rng.randrange(30), bases[0]), "2 %s" % bases[0], "nosuch", "%s^x" % bases[0],
                                                  "%s^-2" % bases[0], "1", "-%s" % bases[0],
                                                  "(%s^%s)^%s" % (bases[0], rng.choice(["2", "65536", "4611686018427387904", "2147483647"]),
                                                                  rng.choice(["2", "32768", "-2147483648", "4611686018427387904"])),
                                                  "%s^%s" % (bases[0], rng.choice(["9223372036854775807", "-9223372036854775808", "2147483648", "1e30", "0"])),
                                                  "q%d^%s" % (rng.randrange(30), rng.choice(["2", "3037000500", "-65536"]))])))
        elif r < 0.75:
            props = []
            for j in range(rng.randrange(0, 4)):
                if rng.random() < 0.5:
                    props.append("    k%d const kin%d %s %s" % (j, j, rng.choice(vals), rng.choice(units + [""])))
                else:
                    props.append("    r%d out%d %s %s / in%d %s %s" % (j, j, rng.choice(vals), rng.choice(units), j,
                                                                      rng.choice(vals), rng.choice(units)))
                if rng.random() < 0.2:
                    props.append("    ?? a property doc")
            if rng.random() < 0.1:
                props.append("    broken")
            out.append("s%d {\n%s\n}" % (i, "\n".join(props)))
            if rng.random() < 0.3:
                out.append("!symbol s%d S%d" % (i, i))
            if rng.random() < 0.35:
                # a molar_mass of any value / dimensionality, a chemical symbol, and formulas over it in later definitions
                sym = "X" + "abcdefghij"[i % 10]
                out[-1 if not out[-1].startswith("!symbol") else -2] = "s%d {\n%s\n}" % (i, "\n".join(
                    props + ["    molar_mass const mass %s %s" % (rng.choice(vals), rng.choice(units + ["b0 / b0", "", "b0^2"]))]))
                out.append("!symbol s%d %s" % (i, sym))
                out.append("f%d %s" % (i, rng.choice(["%s2", "molar_mass of %s2", "%s%s3", "mass of (2 %s)", "%s0", "%s4294967296", "%s18446744073709551616"]).replace("%s", sym)))
        elif r < 0.82:
            out.append('!category c%d "Cat %d"' % (i, i))
            out.append("cu%d %s" % (i, rng.choice(units)))
            if rng.random() < 0.8:
                out.append("!endcategory")
        elif r < 0.9:
            out.append("?? doc line %d" % i)
        else:
            out.append(rng.choice(["!unknownpragma foo", "!", "! category", "!symbol", "!category onlyid", "!endcategory",
                                   "u%d" % i, "= 3", "{", "}", "name {", "x !!", "y ! long extra", "z ? ", "# comment", ""]))
    if rng.random() < 0.2:
        rng.shuffle(out)
    sep = "\r\n" if rng.random() < 0.1 else "\n"
    return sep.join(out) + sep


def gen_cycle(rng, n, namespace):
    """a dependency cycle of length n through one namespace, embedded in a small valid file"""
    lines = ["b !"]
    if namespace == "unit":
        for i in range(n):
            lines.append("c%d 2 c%d" % (i, (i + 1) % n))
    elif namespace == "prefix":
        for i in range(n):
            lines.append("c%d- c%d" % (i, (i + 1) % n))
    elif namespace == "quantity":
        for i in range(n):
            lines.append("c%d ? c%d b" % (i, (i + 1) % n))
    else:   # substance properties referring to units that refer back through `of`
        for i in range(n):
            lines.append("c%d {\n    k const kin 2 u%d\n}" % (i, (i + 1) % n))
            lines.append("u%d k of c%d" % (i, i))
    rng.shuffle(lines)
    return "\n".join(lines) + "\n"


def gen_chain(n, kind):
    lines = ["b !"]
    prev = "b"
    for i in range(n):
        lines.append("a%d %s%s" % (i, "" if kind == "alias" else "2 ", prev))
        prev = "a%d" % i
    return "\n".join(reversed(lines)) + "\n"


def damage_json(rng, js):
    r = rng.random()
    if r < 0.35:
        cut = rng.choice([0, 1, 2, len(js) // 2, len(js) - 1, len(js) - 2, rng.randrange(len(js))])
        return "truncate", js[:cut]
    data = json.loads(js)
    if r < 0.5:
        e = rng.choice(data)
        k = rng.choice(list(e))
        e[k] = rng.choice([None, 1, 1.5, [], {}, True, "", "1e99999", "((((", "1 /", "1 mod 0", "0^-1", "\\u", "x" * 2000])
        return "wrong_type:" + k, json.dumps(data)
    if r < 0.65:
        e = rng.choice(data)
        if "expr" in e:
            e["expr"] = rng.choice(["1 / 0 EUR", "EUR EUR", "(1 / 0.0) EUR", "1e400 EUR", "-> EUR", "EUR +", "#2020#", "EUR^(1/0)",
                                    "missingunit", "1 EUR + 1 s", "EUR mod 0 EUR", "(1/4294967296)^-1 EUR^(1/4294967296)"])
        return "bad_expr", json.dumps(data)
    if r < 0.75:
        e = dict(rng.choice(data))
        e["name"] = rng.choice(["EUR", "USD", "m", "kilo", "", " ", "ans", "in"])
        data.append(e)
        return "collision", json.dumps(data)
    if r < 0.85:
        return "not_a_list", rng.choice(["{}", "null", "3", "\"x\"", "[[]]", "[1]", "[{}]", "[{\"name\": \"X\"}]",
                                         "[{\"name\": \"X\", \"type\": \"nosuch\"}]", "[{\"name\": \"X\", \"type\": \"unit\"}]"])
    e = {"name": "Deep", "type": "unit", "expr": "(" * rng.choice([100, 1000, 5000]) + "1" + ")" * 5000, "doc": None, "category": None}
    data.append(e)
    return "deep_expr", json.dumps(data)


def work(idx, _chunk, seed, n_mut, n_gen, bundled, cur_units, snapshot, dates):
    probe = worker_probe()
    part = Part()
    rng = random.Random((seed << 8) ^ (idx * 6151 + 23))
    lines = bundled.split("\n")
    budget = 60
    for _ in range(n_mut):
        src = rng.random()
        if src < 0.75:
            kind, text = mutate_lines(rng, lines)
            judge_load(part, probe, [{"kind": "text", "text": text}, {"kind": "dates"}], "bundled-mutant:" + kind, budget)
            part.seen("mutant|" + kind + "|%d" % rng.randrange(40))
        elif src < 0.9:
            kind, text = mutate_lines(rng, cur_units.split("\n"))
            judge_load(part, probe, [{"kind": "text", "source": "bundled"}, {"kind": "currency", "units": text}],
                       "currency-units-mutant:" + kind, budget)
        else:
            kind, js = damage_json(rng, snapshot)
            judge_load(part, probe, [{"kind": "text", "source": "bundled"}, {"kind": "currency", "json": js}],
                       "currency-json:" + kind, budget)
            part.seen("json|" + kind)
        part.count("mutants")
    if idx == 0:
        for depth in (100, 1000, 5000):
            text = "b !\ndeep %s2 b%s\n" % ("(" * depth, ")" * depth)
            judge_load(part, probe, [{"kind": "text", "text": text}], "deep-nesting:definitions:%d" % depth, budget)
    for _ in range(n_gen // 6 + 1):
        text, cyc = gen_nested_prefix_file(rng)
        msgs = judge_load(part, probe, [{"kind": "text", "text": text}], "nested-prefix-file:" + ("cycle" if cyc else "valid"), budget,
                          expect_cycle=cyc)
        if msgs is not None and not cyc and msgs.strip():
            part.violation({"kind": "valid_file_reports_errors", "what": "nested-prefix-file"},
                           {"text": text, "messages": msgs[:400]},
                           "a valid definitions file (prefix applied to a unit) is reported as erroneous")
        part.seen("nested|" + text[:80])
    for _ in range(n_gen // 3 + 1):
        a, b = gen_two_files(rng)
        judge_load(part, probe, [{"kind": "text", "text": a}, {"kind": "text", "text": b}], "two-files", budget)
        part.count("two_file_loads")
        part.seen("two|" + b[:60])
    for _ in range(n_gen):
        text = gen_file(rng)
        judge_load(part, probe, [{"kind": "text", "text": text}], "generated-file", budget, entries_text=text)
        part.count("generated_files")
        if rng.random() < 0.15:
            pat = "".join(rng.choice(["[", "]", "'", "year", "-", ":", " ", "monthnum", "day", "hour24", "min", "sec", "offset",
                                      "nosuch", "'T'", "#", "\n", "fullday", "adbc"]) for _ in range(rng.randrange(1, 25)))
            r = probe.request({"op": "load", "steps": [{"kind": "text", "source": "bundled"}, {"kind": "dates", "text": pat}]}, timeout=60)
            part.evaluations += 1
            if "timeout" in r or "died" in r:
                part.violation({"kind": "date_pattern_file_no_reply"}, {"patterns": pat}, "")
            elif any("panic" in x for x in r.get("results", [])):
                p = [x["panic"] for x in r["results"] if "panic" in x][0]
                part.violation(panic_sig(p), {"patterns": pat, "panic": p}, "panic while loading a date pattern file")
            else:
                cid = r["ctx"]
                for q in ["#2020-01-01#", "#12:00#", "#x#", "##"]:
                    a = probe.request({"op": "eval", "ctx": cid, "q": q}, timeout=30)
                    if a.get("panics"):
                        part.violation(panic_sig(a["panics"][0]), {"patterns": pat, "query": q, "panic": a["panics"][0]},
                                       "panic evaluating a date with user date patterns")
                        break
                    if "timeout" in a or "died" in a:
                        part.violation({"kind": "date_query_no_reply"}, {"patterns": pat, "query": q}, "")
                        break
                else:
                    part.count("date_pattern_files_ok")
                probe.request({"op": "dropctx", "ctx": cid})
    return part.export()


def gen_two_files(rng):
    """a valid first file and a second file loaded on top of it (as user files are): redefinitions, aliases pointing
    back into the first file, cycles over existing names, self-aliases, prefix/unit name clashes"""
    f1 = ["m !meter", "s !", "k-- 1e3", "aa 3 m", "bb 2 aa", "cc bb", "dd cc s", "zork 5 m", "alias1 zork", "kk- 1e3"]
    names = ["aa", "bb", "cc", "dd", "zork", "alias1", "m", "s", "meter"]
    f2 = []
    for _ in range(rng.randrange(1, 6)):
        a, b = rng.choice(names[:6]), rng.choice(names)
        form = rng.random()
        if form < 0.3:
            f2.append("%s %s" % (a, b))                     # alias (possibly of itself, possibly closing a cycle)
        elif form < 0.6:
            f2.append("%s %d %s" % (a, rng.randrange(2, 9), b))
        elif form < 0.75:
            f2.append("%s %s %s" % (a, b, rng.choice(names)))
        elif form < 0.85:
            f2.append("new%d %s" % (rng.randrange(9), rng.choice(names[:6])))
        else:
            f2.append("%s-- %s" % (rng.choice(["a", "z", "k", "al"]), rng.choice(["10", "k", "kk", "1|0"])))
    return "\n".join(f1) + "\n", "\n".join(f2) + "\n"


def gen_nested_prefix_file(rng):
    """valid by construction: nested prefixes (d / da, k / ki) applied to units whose names begin with the rest of the
    longer prefix (d + acre reads as da + cre ...); referrers sort before and after what they refer to"""
    short, long_ = rng.choice([("d", "da"), ("k", "ki"), ("m", "mi"), ("x", "xy")])
    rest = long_[len(short):]
    unit = rest + rng.choice(["cre", "lo", "zz", "unit"])
    lines = ["m !meter", "%s-- 1e-1" % short, "%s-- 1e1" % long_, "%s 4000 m^2" % unit]
    refs = []
    for nm in rng.sample(["aaplot", "zzplot", "mplot", unit[:1] + "plot"], 2):
        lines.append("%s 5 %s%s" % (nm, short, unit))
        refs.append(nm)
    cyc = rng.random() < 0.4
    if cyc:
        # the unit now depends on a referrer: a cycle through a prefixed reference
        lines[3] = "%s 8 %s" % (unit, refs[0])
    rng.shuffle(lines)
    return "\n".join(lines) + "\n", cyc


def work_cycles(idx, chunk, seed):
    probe = worker_probe()
    part = Part()
    rng = random.Random(seed ^ idx)
    for (kind, n, ns) in chunk:
        if kind == "cycle":
            text = gen_cycle(rng, n, ns)
            judge_load(part, probe, [{"kind": "text", "text": text}], "cycle:%s:%d" % (ns, n), 120, expect_cycle=True)
            part.seen("cycle|%s|%d" % (ns, n))
        else:
            text = gen_chain(n, ns)
            judge_load(part, probe, [{"kind": "text", "text": text}], "chain:%s:%d" % (ns, n), 120)
            part.seen("chain|%s|%d" % (ns, n))
        part.sample({"kind": kind, "namespace_or_form": ns, "length": n})
    return part.export()


def run(tier, seed):
    run = Run("C13", tier, seed, "exploration", floor=40)
    run.rule = ("texts loaded through the real loader: bundled definitions.units and currency.units under line/token deletion, "
                "duplication, swapping, truncation, CRLF and continuation damage; the currency snapshot JSON truncated, with wrong "
                "types, bad expressions, collisions and deep nesting; grammar-directed random files (units, both prefix kinds, "
                "quantities, prefix and quantity power arithmetic with zero bases and i32/i64 boundary exponents, substances with "
                "zero/negative/mismatched properties, molar masses of any dimensionality with chemical symbols and formulas over them, "
                "categories, docs, pragmas); valid files with nested prefixes; two-file loads with alias loops; dependency cycles "
                "through units, prefixes, quantities and substance properties of length 1..5000 and alias/value chains to 5000; "
                "random date-pattern files; non-trivial = distinct (mutation class), error-message family, cycle/chain shape")
    run.assumptions = ["recursion depth claim: chains and cycles up to 5000 definitions on the probe's 8 MiB stack (deeper is out of the claimed bound)",
                       "a message counts as reporting an entry when it mentions the entry's name"]
    bundled = open("/repo/core/definitions.units", encoding="utf-8").read()
    cur_units = open("/repo/core/currency.units", encoding="utf-8").read()
    snapshot = open("/repo/core/tests/currency.snapshot.json", encoding="utf-8").read()
    dates = open("/repo/core/datepatterns.txt", encoding="utf-8").read()
    n_mut, n_gen = (600, 1200) if tier == "quick" else (100000, 100000)
    per = nproc()
    for res in shard_map(work, [None] * per, (seed, n_mut // per + 1, n_gen // per + 1, bundled, cur_units, snapshot, dates)):
        run.merge(res)
    lengths = [1, 2, 3, 10, 100, 1000, 5000] if tier == "quick" else [1, 2, 3, 4, 5, 10, 50, 100, 500, 1000, 2000, 3000, 4000, 5000]
    jobs = []
    for n in lengths:
        for ns in ("unit", "prefix", "quantity", "substance"):
            jobs.append(("cycle", n, ns))
        for form in ("alias", "value"):
            jobs.append(("chain", n, form))
    for res in shard_map(work_cycles, [[j] for j in jobs], (seed,)):
        run.merge(res)
    return run.finish()


if __name__ == "__main__":
    from lib.common import tier_seed
    a = tier_seed()
    sys.exit(run(a.tier, a.seed))
