"""C14 — date arithmetic is consistent.

Reference-model monitor: date literals are generated from a chosen instant by the monitor's own
rendering of each documented pattern; instants are recovered from replies and compared using an
independent proleptic-Gregorian day-number calendar with integer nanoseconds."""
import json
import random
import re
import sys
from fractions import Fraction

from lib.common import Part, Run, panic_sig
from lib.probe import shard_map, worker_probe, nproc
from lib.registry import Registry

NS = 10 ** 9
DAY = 86400 * NS
T0 = 1600000000          # pinned clock (2020-09-13T12:26:40Z)
MONTHS = ["January", "February", "March", "April", "May", "June", "July", "August", "September",
          "October", "November", "December"]
WEEKDAYS = ["Monday", "Tuesday", "Wednesday", "Thursday", "Friday", "Saturday", "Sunday"]
ZONES = ["US/Pacific", "Europe/London", "Asia/Tokyo", "Australia/Sydney", "UTC", "America/New_York",
         "Asia/Kolkata", "Europe/Berlin", "America/Sao_Paulo", "Africa/Cairo", "Pacific/Auckland"]
_REG = None


def get_reg(probe):
    global _REG
    if _REG is None:
        d = probe.request({"op": "dump", "ctx": probe.ctx("bundled")}, timeout=120)
        _REG = Registry(d["dump"])
    return _REG


# ---- own calendar (days since 1970-01-01, proleptic Gregorian) -------------------
def days_from_civil(y, m, d):
    y -= m <= 2
    era = (y if y >= 0 else y - 399) // 400
    yoe = y - era * 400
    doy = (153 * (m + (-3 if m > 2 else 9)) + 2) // 5 + d - 1
    doe = yoe * 365 + yoe // 4 - yoe // 100 + doy
    return era * 146097 + doe - 719468


def civil_from_days(z):
    z += 719468
    era = (z if z >= 0 else z - 146096) // 146097
    doe = z - era * 146097
    yoe = (doe - doe // 1460 + doe // 36524 - doe // 146096) // 365
    y = yoe + era * 400
    doy = doe - (365 * yoe + yoe // 4 - yoe // 100)
    mp = (5 * doy + 2) // 153
    d = doy - (153 * mp + 2) // 5 + 1
    m = mp + (3 if mp < 10 else -9)
    return (y + (m <= 2), m, d)


def fields(instant_ns, offset_s):
    """local civil fields of a UTC instant at a fixed offset"""
    local = instant_ns + offset_s * NS
    days, rem = divmod(local, DAY)
    y, m, d = civil_from_days(days)
    h, rem = divmod(rem, 3600 * NS)
    mi, rem = divmod(rem, 60 * NS)
    s, ns = divmod(rem, NS)
    return y, m, d, h, mi, s, ns, days


def instant_of(y, m, d, h, mi, s, ns, offset_s):
    return (days_from_civil(y, m, d) * 86400 + h * 3600 + mi * 60 + s - offset_s) * NS + ns


def parse_rfc3339(text, nanosecond):
    m = re.match(r"^(-?\d{4,})-(\d\d)-(\d\d)T(\d\d):(\d\d):(\d\d)(?:\.\d+)?(Z|[+-]\d\d:\d\d)$", text)
    if not m:
        return None
    y, mo, d, h, mi, s = (int(m.group(i)) for i in range(1, 7))
    off = m.group(7)
    if off == "Z":
        o = 0
    else:
        o = (1 if off[0] == "+" else -1) * (int(off[1:3]) * 3600 + int(off[4:6]) * 60)
    return instant_of(y, mo, d, h, mi, s, nanosecond, o), o


# ---- literal rendering ----------------------------------------------------------------
def fmt_offset(rng, o):
    sign = "+" if o >= 0 else "-"
    a = abs(o)
    hh, mm = a // 3600, (a % 3600) // 60
    return "%s%02d:%02d" % (sign, hh, mm) if rng.random() < 0.7 else "%s%02d%02d" % (sign, hh, mm)


def fmt_sec(s, ns, digits):
    if digits == 0:
        return "%02d" % s
    return "%02d.%s" % (s, ("%09d" % ns)[:digits])


def named_zone_fields(instant, zone):
    """local civil fields of an instant in a named zone (system tz database via zoneinfo), or None when the
    local time is ambiguous/skipped or the zone's offset is not a whole number of minutes"""
    from zoneinfo import ZoneInfo
    from datetime import datetime, timezone
    sec, ns = divmod(instant, NS)
    try:
        dt = datetime.fromtimestamp(sec, tz=timezone.utc).astimezone(ZoneInfo(zone))
    except (OverflowError, OSError, ValueError):
        return None
    off = dt.utcoffset().total_seconds()
    if off % 60:
        return None
    naive = dt.replace(tzinfo=None)
    z = ZoneInfo(zone)
    a = naive.replace(tzinfo=z, fold=0)
    b = naive.replace(tzinfo=z, fold=1)
    if a.utcoffset() != b.utcoffset():
        return None        # ambiguous or skipped local time
    return dt.year, dt.month, dt.day, dt.hour, dt.minute, dt.second, ns, int(off)


def render_literal(rng, instant, allow_time_only=True):
    """-> (text, denoted_instant, pattern_name, meta).  The literal is built from the instant
    truncated to what the chosen form can express; denoted_instant is that truncation."""
    o = rng.choice([0, 0, 0, 3600, -3600, 19800, -12600, 45900, -43200, 50400, 86340, -86340, 7200, -28800])
    use_offset = rng.random() < 0.5
    if not use_offset:
        o = 0
    y, m, d, h, mi, s, ns, days = fields(instant, o)
    if not (1 <= y <= 9999):
        return None
    form = rng.choice(["isoT", "iso", "isoT", "iso", "ordinal", "month12", "month24", "ctime", "astro12",
                       "astro24", "today12", "today24"] if allow_time_only else
                      ["isoT", "iso", "ordinal", "month12", "month24", "ctime", "astro12", "astro24"])
    zone = None
    if use_offset and 1972 <= y <= 2019 and not form.startswith("today") and rng.random() < 0.4:
        # a named zone inside the literal (judged with the system tz database; years where both databases agree)
        zone = rng.choice(ZONES)
        nz = named_zone_fields(instant, zone)
        if nz is None:
            zone = None
        else:
            y, m, d, h, mi, s, ns, o = nz
            days = days_from_civil(y, m, d)
    digits = rng.choice([0, 0, 1, 2, 3, 4, 6, 7, 9])
    ns_t = (ns // 10 ** (9 - digits)) * 10 ** (9 - digits) if digits else 0
    with_time = rng.random() < 0.85
    with_sec = rng.random() < 0.8
    if not with_sec:
        s_t, ns_t, digits = 0, 0, 0
    else:
        s_t = s
    offs = (" " + (zone if zone else fmt_offset(rng, o))) if use_offset else ""
    mon = MONTHS[m - 1]
    if rng.random() < 0.5:
        mon = mon[:3]
    if rng.random() < 0.3:
        mon = mon.upper() if rng.random() < 0.5 else mon.lower()
    sec = (":" + fmt_sec(s_t, ns_t, digits)) if with_sec else ""
    h12 = h % 12 or 12
    mer = rng.choice(["am", "AM"]) if h < 12 else rng.choice(["pm", "PM"])
    ystr = "%04d" % y if rng.random() < 0.8 or y >= 1000 else str(y)
    if form in ("isoT", "iso", "ordinal"):
        date = "%s-%02d-%02d" % (ystr, m, d) if form != "ordinal" else "%s-%03d" % (ystr, days - days_from_civil(y, 1, 1) + 1)
        if with_time:
            sep = "T" if form == "isoT" else " "
            text = "%s%s%02d:%02d%s%s" % (date, sep, h, mi, sec, offs)
            den = instant_of(y, m, d, h, mi, s_t, ns_t, o)
        else:
            text = date
            den = instant_of(y, m, d, 0, 0, 0, 0, 0)
            o = 0
    elif form in ("month12", "month24", "astro12", "astro24"):
        comma = "," if rng.random() < 0.5 else ""
        datep = "%s %d%s %s" % (mon, d, comma, ystr) if form.startswith("month") else "%s %s %d" % (ystr, mon, d)
        if with_time:
            if form.endswith("12"):
                t = "%02d:%02d%s %s%s" % (h12, mi, sec, mer, offs)
            else:
                t = "%02d:%02d%s%s" % (h, mi, sec, offs)
            text = datep + " " + t
            den = instant_of(y, m, d, h, mi, s_t, ns_t, o)
        else:
            text = datep
            den = instant_of(y, m, d, 0, 0, 0, 0, 0)
            o = 0
        if rng.random() < 0.2:
            text += " " + rng.choice(["AD", "CE", "ad", "ce"])
    elif form == "ctime":
        wd = WEEKDAYS[(days + 3) % 7]       # 1970-01-01 was a Thursday
        if rng.random() < 0.6:
            wd = wd[:3]
        if with_time:
            text = "%s %s %d %02d:%02d%s %04d" % (wd, mon, d, h, mi, sec, y)
            den = instant_of(y, m, d, h, mi, s_t, ns_t, 0)
        else:
            text = "%s %s %d %04d" % (wd, mon, d, y)
            den = instant_of(y, m, d, 0, 0, 0, 0, 0)
        if use_offset:
            return None           # ctime has no offset part; regenerate
        o = 0
    else:
        # time of day today: the date is the pinned clock's date at that offset
        ty, tm, td = fields(T0 * NS, o)[:3]
        if form == "today12":
            text = "%02d:%02d%s %s%s" % (h12, mi, sec, mer, offs)
        else:
            text = "%02d:%02d%s%s" % (h, mi, sec, offs)
        den = instant_of(ty, tm, td, h, mi, s_t, ns_t, o)
    if zone and offs.strip() not in text:
        zone = None
    return text, den, form + (":zone" if zone and zone in text else ""), {"offset": o, "subsec_digits": digits, "with_time": with_time, "zone": zone}


def lit(fr):
    if fr.denominator == 1:
        return "(%d)" % fr.numerator if fr >= 0 else "(-%d)" % -fr.numerator
    if fr < 0:
        return "(-%d/%d)" % (-fr.numerator, fr.denominator)
    return "(%d/%d)" % (fr.numerator, fr.denominator)


TIME_UNITS = ["ns", "nanosecond", "us", "microsecond", "ms", "millisecond", "s", "second", "min", "minute",
              "hour", "hr", "day", "week", "year", "fortnight"]


def rand_duration_ns(rng):
    r = rng.random()
    if r < 0.15:
        k = rng.choice([1, 2, 999, 1000, 1001, 999999, 10 ** 6, 10 ** 6 + 1, 500000, 10 ** 9 - 1, 10 ** 9, 10 ** 9 + 1])
    elif r < 0.35:
        k = rng.randrange(1, 10 ** 9)                         # sub-second
    elif r < 0.6:
        k = rng.randrange(1, 10 ** 15)                        # up to ~11 days
    elif r < 0.85:
        k = rng.randrange(1, 10 ** 18)                        # up to ~31 years
    else:
        k = rng.randrange(1, 3 * 10 ** 20)                    # up to ~9500 years
    return -k if rng.random() < 0.4 else k


def value_of(rep):
    """exact seconds of a number/duration reply"""
    kind = rep.get("kind")
    np_ = rep["value"] if kind == "number" else (rep["raw"] if kind == "duration" else None)
    if np_ is None:
        return None
    raw = np_["raw"]
    if raw is None or raw.get("f") or "n" not in raw:
        return "float"
    return Fraction(int(raw["n"]), int(raw["d"])), raw["u"]


def ask(part, probe, q, cid):
    part.evaluations += 1
    r = probe.request({"op": "eval", "ctx": cid, "q": q, "time": T0, "spans": False, "json": False}, timeout=30)
    if "timeout" in r or "died" in r:
        part.inconclusive_event("no reply", {"query": q[:300]})
        return None
    if r.get("panics"):
        p = r["panics"][0]
        part.violation(panic_sig(p), {"query": q, "panic": p}, "panic in date arithmetic")
        return None
    return r


def date_instant(rep):
    if rep.get("kind") != "date":
        return None
    return parse_rfc3339(rep["rfc3339"], rep["nanosecond"])


def in_range(inst):
    lo = days_from_civil(1, 1, 2) * DAY
    hi = days_from_civil(9999, 12, 30) * DAY
    return lo <= inst <= hi


def work(idx, _chunk, seed, n):
    probe = worker_probe()
    reg = get_reg(probe)
    part = Part()
    rng = random.Random((seed << 9) ^ (idx * 40503 + 5))
    cid = probe.ctx("bundled")
    uvals = {}
    for u in TIME_UNITS:
        v, _ = reg.lookup(u)
        if v is not None and not v.f and v.d == {"s": 1}:
            uvals[u] = v.v
    units = sorted(uvals)
    lo, hi = days_from_civil(1, 1, 2), days_from_civil(9999, 12, 30)
    for _ in range(n):
        r0 = rng.random()
        if r0 < 0.2:
            day = rng.choice([days_from_civil(y, mm, dd) for (y, mm, dd) in
                              [(2000, 2, 29), (1900, 2, 28), (1900, 3, 1), (2100, 2, 28), (1, 1, 2), (9999, 12, 30),
                               (1999, 12, 31), (2000, 1, 1), (1970, 1, 1), (1969, 12, 31), (1582, 10, 10), (400, 2, 29),
                               (2024, 2, 29), (2023, 12, 31)]])
        elif r0 < 0.6:
            day = rng.randrange(days_from_civil(1900, 1, 1), days_from_civil(2100, 1, 1))
        else:
            day = rng.randrange(lo, hi)
        inst = day * DAY + rng.randrange(0, DAY)
        g = render_literal(rng, inst)
        if g is None:
            continue
        text, d, form, meta = g
        if not in_range(d):
            continue
        # 1. the literal denotes the instant its pattern describes
        r = ask(part, probe, "#%s#" % text, cid)
        if r is None:
            continue
        rep = r.get("r") or {}
        wit = {"literal": text, "form": form, "reply": (r.get("text") or "")[:200]}
        got = date_instant(rep)
        if got is None:
            part.violation({"kind": "documented_literal_rejected", "form": form, "message": _norm(rep.get("message"))},
                           wit, "a literal matching a documented pattern was not read as a date")
            continue
        if got[0] != d:
            part.violation({"kind": "literal_denotes_other_instant", "form": form},
                           dict(wit, expected_ns=d, got_ns=got[0], diff_ns=got[0] - d),
                           "date literal denotes another instant than its pattern describes")
            continue
        part.count("literal_ok:" + form)
        # 2. (d + t) - d = t and (d - t) + t = d
        k = rand_duration_ns(rng)
        if not in_range(d + k) or not in_range(d - k):
            k = rng.choice([-1, 1]) * rng.randrange(1, 10 ** 15)
        if in_range(d + k) and in_range(d - k):
            u = rng.choice(units)
            tq = "%s %s" % (lit(Fraction(k, NS) / uvals[u]), u)
            q = "(#%s# + %s) - #%s#" % (text, tq, text)
            r = ask(part, probe, q, cid)
            if r is not None:
                v = value_of(r.get("r") or {})
                wit2 = {"query": q[:300], "reply": (r.get("text") or "")[:200], "t_ns": k}
                if v is None or v == "float":
                    part.violation({"kind": "date_plus_duration_failed", "message": _norm((r.get("r") or {}).get("message"))},
                                   wit2, "(d + t) - d did not evaluate to a duration")
                elif v[0] != Fraction(k, NS):
                    part.violation({"kind": "add_then_subtract_differs", "submillisecond": k % 10 ** 6 != 0},
                                   dict(wit2, expected=str(Fraction(k, NS)), got=str(v[0])), "(d + t) - d != t")
                else:
                    part.count("add_sub_ok")
                    cls = "sub-ms" if k % 10 ** 6 else ("sub-s" if k % NS else "whole-s")
                    part.seen("%s|%s|%s|%s" % (form, u, cls, "neg" if k < 0 else "pos"))
            q = "(#%s# - %s) + %s" % (text, tq, tq)
            r = ask(part, probe, q, cid)
            if r is not None:
                got2 = date_instant(r.get("r") or {})
                wit2 = {"query": q[:300], "reply": (r.get("text") or "")[:200], "t_ns": k}
                if got2 is None:
                    part.violation({"kind": "date_minus_duration_failed", "message": _norm((r.get("r") or {}).get("message"))},
                                   wit2, "(d - t) + t did not evaluate to a date")
                elif got2[0] != d:
                    part.violation({"kind": "subtract_then_add_differs", "submillisecond": k % 10 ** 6 != 0},
                                   dict(wit2, diff_ns=got2[0] - d), "(d - t) + t != d")
                else:
                    part.count("sub_add_ok")
        # 3. d1 - d2 agrees with the calendar
        inst2 = rng.randrange(lo, hi) * DAY + rng.randrange(0, DAY) if rng.random() < 0.5 else inst + rand_duration_ns(rng)
        g2 = render_literal(rng, inst2, allow_time_only=False)
        if g2 is not None and in_range(g2[1]):
            t2, d2 = g2[0], g2[1]
            diff = d - d2
            if abs(diff) < (2 ** 63 // 1000) * NS:
                q = "#%s# - #%s#" % (text, t2)
                r = ask(part, probe, q, cid)
                if r is not None:
                    v = value_of(r.get("r") or {})
                    wit3 = {"query": q[:300], "reply": (r.get("text") or "")[:200]}
                    if v is None or v == "float":
                        part.violation({"kind": "date_difference_failed", "message": _norm((r.get("r") or {}).get("message"))},
                                       wit3, "d1 - d2 did not evaluate")
                    elif v[0] != Fraction(diff, NS):
                        part.violation({"kind": "date_difference_wrong"},
                                       dict(wit3, expected=str(Fraction(diff, NS)), got=str(v[0])),
                                       "d1 - d2 disagrees with the proleptic Gregorian calendar")
                    else:
                        part.count("difference_ok")
        # 4. conversion to a zone / offset keeps the instant; |offset| >= 24h is refused
        rz = rng.random()
        if rz < 0.45:
            hh, mm = rng.randrange(0, 24), rng.choice([0, 0, 30, 45, 59, 15])
            sign = rng.choice("+-")
            q = "#%s# -> %s%02d:%02d" % (text, sign, hh, mm)
            r = ask(part, probe, q, cid)
            if r is not None:
                g3 = date_instant(r.get("r") or {})
                wit4 = {"query": q[:300], "reply": (r.get("text") or "")[:200]}
                want_off = (1 if sign == "+" else -1) * (hh * 3600 + mm * 60)
                if g3 is None:
                    part.violation({"kind": "offset_conversion_failed", "message": _norm((r.get("r") or {}).get("message"))}, wit4, "")
                elif g3[0] != d:
                    part.violation({"kind": "offset_conversion_changes_instant"}, dict(wit4, diff_ns=g3[0] - d),
                                   "converting to a fixed offset changed the instant")
                elif g3[1] != want_off:
                    part.violation({"kind": "offset_conversion_wrong_offset"}, dict(wit4, want=want_off, got=g3[1]), "")
                else:
                    part.count("offset_conversion_ok")
        elif rz < 0.6:
            hh = rng.choice([24, 25, 48, 99])
            q = "#%s# -> %s%02d:%02d" % (text, rng.choice("+-"), hh, rng.choice([0, 30]))
            r = ask(part, probe, q, cid)
            if r is not None:
                kind = (r.get("r") or {}).get("kind", "")
                if not kind.startswith("err"):
                    part.violation({"kind": "offset_beyond_24h_accepted"},
                                   {"query": q, "reply": (r.get("text") or "")[:200]}, "")
                else:
                    part.count("offset_beyond_24h_refused")
                    part.seen("refuse|%d" % hh)
        elif d >= days_from_civil(1972, 1, 1) * DAY:
            z = rng.choice(ZONES)
            q = '#%s# -> "%s"' % (text, z)
            r = ask(part, probe, q, cid)
            if r is not None:
                g3 = date_instant(r.get("r") or {})
                wit4 = {"query": q[:300], "reply": (r.get("text") or "")[:200]}
                if g3 is None:
                    part.violation({"kind": "zone_conversion_failed", "message": _norm((r.get("r") or {}).get("message"))}, wit4, "")
                elif g3[0] != d:
                    part.violation({"kind": "zone_conversion_changes_instant"}, dict(wit4, diff_ns=g3[0] - d),
                                   "converting to a named zone changed the instant")
                else:
                    part.count("zone_conversion_ok")
                    part.seen("zone|" + z)
        part.sample({"literal": text, "form": form})
    return part.export()


def days_in_month(y, m):
    return [31, 29 if (y % 4 == 0 and (y % 100 != 0 or y % 400 == 0)) else 28, 31, 30, 31, 30, 31, 31, 30, 31, 30, 31][m - 1]


MONTHS = ["jan", "feb", "mar", "apr", "may", "jun", "jul", "aug", "sep", "oct", "nov", "dec"]


def work_invalid(idx, _chunk, seed, n):
    """literals that match a documented pattern but describe no instant (a day the month does not have, minute 60,
    an offset of 24 h or more), second 60, time-only literals in named zones on daylight-saving days, a duration
    minus a date, and the rfc3339 field for zones whose offset has seconds: each must be refused, or be consistent"""
    probe = worker_probe()
    part = Part()
    rng = random.Random((seed << 7) ^ (idx * 6151 + 3))
    cid = probe.ctx("bundled")

    def must_refuse(q, what, sig):
        r = ask(part, probe, q, cid)
        if r is None:
            return
        rep = r.get("r") or {}
        if not (rep.get("kind") or "").startswith("err"):
            part.violation(dict({"kind": what}, **sig), {"query": q, "reply": (r.get("text") or "")[:200]},
                           "a literal that describes no instant was given one")
        else:
            part.count(what.replace("accepted", "refused"))
            part.seen(what + "|" + json.dumps(sig, sort_keys=True))

    for _ in range(n):
        y = rng.choice([1900, 2000, 2019, 2020, 2021, 2100, rng.randrange(1, 9999)])
        r0 = rng.random()
        hh, mi, ss = rng.randrange(24), rng.randrange(60), rng.randrange(60)
        if r0 < 0.2:
            # a day the month (or the year) does not have, with a valid time of day
            m = rng.randrange(1, 13)
            d = days_in_month(y, m) + rng.choice([1, 1, 2]) if rng.random() < 0.8 else 0
            if d > 31 or d == 0:
                d = 31 if days_in_month(y, m) < 31 else 32
            form = rng.choice(["iso", "isoT", "ordinal", "monthname", "ymonthname"])
            if d > 31:
                form = "ordinal"
            if form == "iso":
                q = "#%04d-%02d-%02d %02d:%02d#" % (y, m, d, hh, mi)
            elif form == "isoT":
                q = "#%04d-%02d-%02dT%02d:%02d:%02d#" % (y, m, d, hh, mi, ss)
            elif form == "ordinal":
                leap = days_in_month(y, 2) == 29
                q = "#%04d-%03d %02d:%02d#" % (y, 367 if leap or rng.random() < 0.3 else 366, hh, mi)
            elif form == "monthname":
                q = "#%s %d, %d %02d:%02d#" % (MONTHS[m - 1], d, y, hh, mi)
            else:
                q = "#%d %s %d %02d:%02d#" % (y, MONTHS[m - 1], d, hh, mi)
            must_refuse(q, "impossible_date_accepted", {"form": form})
        elif r0 < 0.35:
            m = rng.randrange(1, 13)
            d = rng.randrange(1, days_in_month(y, m) + 1)
            bad = rng.choice(["min60", "sec61frac", "min99", "hour24", "sec75"])
            t = {"min60": "%02d:60" % hh, "sec61frac": "%02d:%02d:61.5" % (hh, mi), "min99": "%02d:99" % hh,
                 "hour24": "24:%02d" % mi, "sec75": "%02d:%02d:75" % (hh, mi)}[bad]
            must_refuse("#%04d-%02d-%02d %s#" % (y, m, d, t), "impossible_time_accepted", {"which": bad})
        elif r0 < 0.5:
            m = rng.randrange(1, 13)
            d = rng.randrange(1, days_in_month(y, m) + 1)
            bad = rng.choice(["+24:00", "-24:00", "+2400", "-9999", "+99:59", "+0099", "-0060", "+25:30", "+4800"])
            must_refuse("#%04d-%02d-%02d %02d:%02d:%02d %s#" % (y, m, d, hh, mi, ss, bad), "literal_offset_out_of_range_accepted",
                        {"offset": bad})
        elif r0 < 0.65:
            # second 60: refused, or arithmetic on it is exact
            m = rng.randrange(1, 13)
            d = rng.randrange(1, days_in_month(y, m) + 1)
            frac = rng.choice(["", "", ".5", ".000000001"])
            lit_ = "#%04d-%02d-%02d %02d:%02d:60%s#" % (y, m, d, hh, mi, frac)
            t, tn = rng.choice([("1 day", 86400), ("1 s", 1), ("1 hour", 3600), ("90 s", 90)])
            q = "(%s + %s) - %s" % (lit_, t, lit_)
            r = ask(part, probe, q, cid)
            if r is not None:
                rep = r.get("r") or {}
                if (rep.get("kind") or "").startswith("err"):
                    part.count("second_60_refused")
                    part.seen("sec60|refused|" + frac)
                else:
                    v = value_of(rep)
                    if v is None or v == "float" or v[0] != tn:
                        part.violation({"kind": "add_then_subtract_differs", "instant": "second 60"},
                                       {"query": q, "reply": (r.get("text") or "")[:200], "want_s": tn}, "(d + t) - d != t")
                    else:
                        part.count("second_60_consistent")
        elif r0 < 0.8:
            # time-only literal in a named zone while `now` is a daylight-saving transition day in that zone
            zone, clock, times = rng.choice([
                ("US/Pacific", 1615752000, ["02:30", "02:00", "02:59:59", "03:00", "01:59"]),      # 2021-03-14 20:00Z (gap)
                ("US/Pacific", 1636315200, ["01:30", "01:00", "01:59:59", "02:00", "00:59"]),      # 2021-11-07 20:00Z (fold)
                ("Europe/London", 1616932800, ["01:30", "01:00", "02:00"]),                        # 2021-03-28 12:00Z
                ("Europe/London", 1635681600, ["01:30", "01:00", "02:00"]),                        # 2021-10-31 12:00Z
                ("Australia/Sydney", 1633190400, ["02:30", "02:00", "03:00"]),                     # 2021-10-02 16:00Z -> Oct 3 local
                ("America/New_York", 1615708800, ["02:30", "03:30"])])
            q = "#%s %s#" % (rng.choice(times), zone)
            part.evaluations += 1
            r = probe.request({"op": "eval", "ctx": cid, "q": q, "time": clock, "spans": False, "json": False}, timeout=30)
            if "timeout" in r or "died" in r:
                part.inconclusive_event("no reply", {"query": q})
            elif r.get("panics"):
                pz = r["panics"][0]
                part.violation(panic_sig(pz), {"query": q, "clock": clock, "panic": pz},
                               "panic on a time-only literal on a daylight-saving day")
            else:
                part.count("dst_day_literal_answered:" + str((r.get("r") or {}).get("kind")))
                part.seen("dst|%s|%s" % (zone, q))
        elif r0 < 0.9:
            m = rng.randrange(1, 13)
            d = rng.randrange(1, days_in_month(y, m) + 1)
            q = "%s - #%04d-%02d-%02d %02d:%02d#" % (rng.choice(["5 s", "1 day", "3 hours", "0 s", "-2 s"]), y, m, d, hh, mi)
            must_refuse(q, "duration_minus_date_accepted", {})
        else:
            # zones whose historical offset has seconds: the rfc3339 field still names the instant
            zone, yy = rng.choice([("Europe/Amsterdam", 1930), ("US/Pacific", 1800), ("Europe/Paris", 1890), ("Asia/Kolkata", 1900),
                                   ("America/New_York", 1850), ("Europe/Dublin", 1900)])
            m = rng.randrange(1, 13)
            d = rng.randrange(1, 28)
            want = instant_of(yy, m, d, hh, mi, ss, 0, 0)
            q = '#%04d-%02d-%02d %02d:%02d:%02d +00:00# -> "%s"' % (yy, m, d, hh, mi, ss, zone)
            r = ask(part, probe, q, cid)
            if r is not None:
                g = date_instant(r.get("r") or {})
                if g is None:
                    part.count("historic_zone_conversion_no_instant")
                elif g[0] != want:
                    part.violation({"kind": "zone_conversion_changes_instant", "field": "rfc3339", "era": "offset with seconds"},
                                   {"query": q, "rfc3339": (r.get("r") or {}).get("rfc3339"), "diff_ns": g[0] - want},
                                   "the rfc3339 field of the converted date names another instant")
                else:
                    part.count("historic_zone_conversion_ok")
                    part.seen("historic|" + zone)
    return part.export()


def _norm(m):
    m = re.sub(r"`[^`]*`", "`..`", m or "")
    return re.sub(r"\d+", "N", m)[:80]


def run(tier, seed):
    run = Run("C14", tier, seed, "exploration", floor=200)
    run.rule = ("instants over years 0001-9999 (leap days, year/century boundaries, random) rendered by the monitor into every "
                "documented literal form (ISO with T/space, ordinal, month-name 12h/24h, ctime, astronomical, time-of-day; "
                "optional seconds, 1-9 fractional digits, fixed offsets) x durations of 1 ns..9500 years in 16 time units, "
                "both signs; literal instant, (d+t)-d, (d-t)+t, d1-d2, fixed-offset and named-zone conversions, refusal of "
                "offsets >= 24h; literals that describe no instant (impossible day, minute 60, offset >= 24 h) must be refused, "
                "second 60 refused or consistent, time-only literals in named zones on daylight-saving days, duration - date, "
                "rfc3339 for zones with second offsets; non-trivial = distinct (literal form, duration unit, sub-ms/sub-s/whole, sign) classes")
    run.assumptions = ["clock pinned at 2020-09-13T12:26:40Z; the sandbox's local zone is UTC",
                       "random named-zone conversions and named zones inside literals are judged with the system tz database on "
                       "instants from 1972 on; six historic zones with second-valued offsets are judged on the rfc3339 field alone; "
                       "ISO-week and year-less patterns are not generated (they can never produce a date: DESIGN section 9)",
                       "durations are whole nanoseconds and results stay within years 0001-9999"]
    n = 12000 if tier == "quick" else 2000000
    per = nproc()
    for res in shard_map(work, [None] * per, (seed, n // per + 1)):
        run.merge(res)
    for res in shard_map(work_invalid, [None] * per, (seed, (n // 6) // per + 1)):
        run.merge(res)
    return run.finish()


if __name__ == "__main__":
    from lib.common import tier_seed
    a = tier_seed()
    sys.exit(run(a.tier, a.seed))
