"""C04 — totality: no input can crash, abort or hang evaluation.

Event monitor: the real lexer/parser/evaluator/renderers are driven with hostile inputs on
long-lived contexts; the verdict is the event itself (panic record from the probe's panic hook,
process death by signal, watchdog expiry on a cheap input), plus a health query after each history."""
import glob
import os
import random
import re
import subprocess
import sys
import tempfile

from lib.common import Part, Run, panic_sig
from lib.probe import shard_map, worker_probe, nproc, TARGET, HARNESS, cargo_env, HarnessError, RUN_DIR

BOUNDARY_INTS = ["0", "1", "2", "31", "32", "63", "64", "255", "256", "999", "1000", "65535", "65536", "2147483647",
                 "2147483648", "4294967295", "4294967296", "9223372036854775807", "9223372036854775808",
                 "18446744073709551616", "100000000000000000000", "-1", "-2147483648", "-2147483649", "0.5", "1e3"]
UNITS = ["nitrogen", "oxygen", "2 kg water", "3 m oxygen", "1 mol gold", "m", "s", "kg", "ft", "inch", "mile", "hour", "day", "year", "K", "A", "mol", "cd", "bit", "byte", "radian", "degree",
         "N", "J", "W", "Pa", "Hz", "V", "ohm", "liter", "gallon", "acre", "lightyear", "c", "G", "pi", "percent", "USD",
         "kilometer", "millisecond", "cups", "furlongs", "fortnight", "'foo'", "'bar baz'", "ans", "_", "water", "gold",
         "H2O", "C2H6", "NaCl", "kWh", "mph", "dozen", "googol", "ly", "au", "eV", "btu", "hp", "psi", "mmHg", "rpm"]
FUNCS = ["sqrt", "exp", "ln", "log", "log2", "log10", "hypot", "sin", "cos", "tan", "asin", "acos", "atan", "atan2",
         "sinh", "cosh", "tanh", "asinh", "acosh", "atanh"]
DEG = ["degC", "°C", "celsius", "℃", "degF", "°F", "degRé", "°Rø", "degDe", "degN", "kelvin"]
TOKENS = (["(", ")", "+", "-", "*", "/", "|", "^", "**", "=", "<<", ">>", "->", "→", "to", "in", "per", "mod", "and", "or",
           "xor", ";", ",", ":", "%", "'", "\"", "#", "\\", "\\u", "\\u41", "\\u110000", "\\uffffffffff", "//", "/*", "*/",
           "−", "∕", " ", " ", "\t", ".", "..", "e", "E", "0x", "0o", "0b", "0xg", "1e", "1e+", "1.", ".5", "1_000", "1__",
           "of", "for", "units", "units for", "factorize", "search", "digits", "frac", "sci", "eng", "base", "hex", "oct", "bin",
           "now", "ans", "int", "survey", "british", "US/Pacific", "\"US/Pacific\"", "UTC", "GB", "+05:00", "-99:99", "+24:00"]
          + UNITS + FUNCS + DEG + BOUNDARY_INTS)
DATE_BITS = ["2020", "01", "1", "31", "32", "00", "12", "13", "24", "59", "60", "61", "99", "0000", "9999", "10000", "-", ":", " ",
             "T", "W", "+", ".", ",", "jan", "January", "feb", "mon", "Monday", "am", "PM", "ad", "BC", "bce", "US/Pacific",
             "Europe/London", "Foo/Bar", "+05:00", "+0500", "-2359", "+24:00", "+9999", "+999999:00", "-99999999999:00", "+2147483648:00", "+00:99", "+0099", "+9999999999", "12.5", "12.123456789", "12.1234567890",
             "12.00000000000000000001", "999999999999", "٣", "x"]
DATE_VALID = ["2020-01-01", "2020-01-01 12:00", "2020-01-01T12:00:00 +05:00", "jan 1, 1970", "January 1 1970 12:00 pm",
              "1970 January 1", "12:34:56", "12:34 pm", "2020-366", "--02-29", "Sun Jan 5 13:04:05 2020", "2020-W05",
              "2020-01-01 12:00 US/Pacific", "1 jan 1 BC"]


def load_corpus():
    out = set()
    for f in glob.glob("/repo/docs/*.adoc"):
        for line in open(f, encoding="utf-8", errors="replace"):
            m = re.match(r"^\s*> (.+)$", line)
            if m:
                out.add(m.group(1).strip())
    for f in glob.glob("/repo/core/tests/*.rs") + ["/repo/README.md", "/repo/core/src/lib.rs"]:
        try:
            txt = open(f, encoding="utf-8", errors="replace").read()
        except OSError:
            continue
        for m in re.finditer(r'test\(\s*"((?:[^"\\]|\\.)*)"', txt):
            out.add(m.group(1).encode().decode("unicode_escape", errors="replace") if "\\" in m.group(1) else m.group(1))
        for m in re.finditer(r'one_line\(&mut ctx,\s*"((?:[^"\\]|\\.)*)"', txt):
            out.add(m.group(1))
    out = sorted(q for q in out if 0 < len(q) < 300)
    return out


# ---------------------------------------------------------------- generators

def g_number(rng):
    r = rng.random()
    if r < 0.3:
        return rng.choice(BOUNDARY_INTS)
    if r < 0.5:
        return str(rng.randrange(0, 100))
    if r < 0.65:
        return "%d.%d" % (rng.randrange(0, 1000), rng.randrange(0, 10 ** rng.randrange(1, 12)))
    if r < 0.75:
        return "%de%s%d" % (rng.randrange(1, 10), rng.choice(["", "-", "+"]), rng.choice([0, 1, 9, 30, 99, 308, 999]))
    if r < 0.85:
        return rng.choice(["0x", "0o", "0b"]) + "".join(rng.choice("0123456789abcdefABCDEF_") for _ in range(rng.randrange(0, 12)))
    return str(rng.getrandbits(rng.choice([64, 128, 512])))


def g_expr(rng, depth):
    if depth <= 0 or rng.random() < 0.3:
        r = rng.random()
        if r < 0.35:
            return g_number(rng)
        if r < 0.85:
            u = rng.choice(UNITS)
            if rng.random() < 0.2:
                u = rng.choice(["kilo", "milli", "k", "m", "micro", "yotta", "quecto", "double", "semi", "⅞"]) + u
            if rng.random() < 0.1:
                u += "s"
            return u
        if r < 0.91:
            return "#%s#" % g_date(rng)
        if r < 0.96:
            # values that are NaN / infinite / zero machine floats, flowing into whatever comes next
            return rng.choice(["ln(-1)", "log2(0)", "exp(1000)", "-exp(1000)", "sin(0)", "sqrt(0)", "0.0", "(0-1)", "(0+1)", "(1-1)",
                               "asin(2)", "1e308 exp(700)", "ln(0)", "tan(pi/2)", "(exp(1000) - exp(1000))"])
        return rng.choice(["now", "ans", "'x'", "\"in\""])
    r = rng.random()
    a, b = g_expr(rng, depth - 1), g_expr(rng, depth - 1)
    if r < 0.45:
        op = rng.choice([" + ", " - ", " * ", " / ", " ", "|", "^", "**", " mod ", " << ", " >> ", " and ", " or ", " xor ", " per ", " = "])
        return "%s%s%s" % (a, op, b)
    if r < 0.55:
        return "(%s)" % a
    if r < 0.65:
        return rng.choice(["-", "+", "−"]) + a
    if r < 0.78:
        f = rng.choice(FUNCS)
        form = rng.random()
        if form < 0.6:
            return "%s(%s)" % (f, a)
        if form < 0.85:
            return "%s(%s, %s)" % (f, a, b)
        return "%s %s" % (f, a)
    if r < 0.86:
        return "%s %s" % (a, rng.choice(DEG))
    if r < 0.93:
        return "%s of %s" % (rng.choice(["density", "molar_mass", "mass", "volume", "foo", "specific_heat", "atomic_number"]), a)
    return "%s^%s" % (a, rng.choice(["2", "-1", "0", "(1/2)", "(1/3)", "0.5", "(1/4294967296)", "(1/100000000000000000000)",
                                      "2147483648", "-2147483648", "(1/0)", "1e5"]))


def g_date(rng):
    r = rng.random()
    if r < 0.4:
        return rng.choice(DATE_VALID)
    if r < 0.7:
        s = rng.choice(DATE_VALID)
        i = rng.randrange(len(s) + 1)
        return s[:i] + rng.choice(DATE_BITS) + s[i + rng.randrange(0, 3):]
    return "".join(rng.choice(DATE_BITS) + rng.choice(["", "", " ", "-", ":"]) for _ in range(rng.randrange(1, 8)))


def g_target(rng):
    r = rng.random()
    if r < 0.12:
        return g_expr(rng, rng.choice([1, 2, 2, 3]))
    if r < 0.25:
        # constants with sums/differences/powers inside a target (the unit-name evaluator treats them separately)
        u = rng.choice(UNITS)
        inner = rng.choice(["(-8)^2.5", "1e200^2.5", "(1e-200)^-2.5", "(-1)^0.5", "4^1.5", "(0-1)", "(0+1)", "(1-1)", "(2-2)", "(3-1)", "(0-1)^-1", "(0+1)^-1", "(1+1)^2", "(1-2)", "0", "-0", "(0 %s)" % u])
        return rng.choice(["%s/%s", "%s %s", "%s/(%s %s)" % ("%s", "%s", u), "1/%s %s", "%s^%s", "(%s)^(%s)", "%s mod %s", "%s - %s"]) % (
            rng.choice([u, "1", "2", inner]), inner)
    if r < 0.4:
        return rng.choice(["digits", "digits %s" % rng.choice(BOUNDARY_INTS), "frac", "fraction", "ratio", "sci", "scientific",
                           "eng", "engineering"]) + rng.choice(["", " base %s" % rng.choice(BOUNDARY_INTS + ["2", "10", "16", "36", "37", "1"]),
                                                               " hex", " oct", " bin", " base", " " + g_expr(rng, 0)])
    if r < 0.5:
        return "base %s" % rng.choice(["2", "8", "10", "16", "36", "37", "0", "1", "256", "4294967296", "x", ""]) + rng.choice(["", " " + g_expr(rng, 0)])
    if r < 0.62:
        return rng.choice([";", ",", "; "]).join(rng.choice(UNITS) for _ in range(rng.randrange(1, 6)))
    if r < 0.72:
        return rng.choice(["+", "-"]) + rng.choice(["05:00", "23:59", "24:00", "99:99", "00:00", "5:00", "0500", "05:0", "100:00", "٠٥:٠٠"])
    if r < 0.8:
        z = rng.choice(['"US/Pacific"', "UTC", "\"Europe/London\"", "GB", "\"Foo/Bar\"", "US/Pacific", "EST", "Japan", "GMT", "CET",
                        "NZ", "UCT", "Zulu", "Iran", "Cuba", "Egypt", "\"Etc/GMT+5\"", "\"America/New_York\""])
        c = rng.random()
        if c < 0.25:
            z = z.lower()
        elif c < 0.35:
            z = z.upper()
        elif c < 0.45:
            z = z.title()
        return z
    if r < 0.9:
        return rng.choice(DEG) + rng.choice(["", "", " m", "^2", " " + rng.choice(DEG)])
    return "%s = %s" % (rng.choice(["potato", "x", "m", "1", "'q'"]), g_expr(rng, 1))


def g_grammar(rng):
    r = rng.random()
    if r < 0.45:
        return g_expr(rng, rng.randrange(1, 5))
    if r < 0.8:
        return "%s %s %s" % (g_expr(rng, rng.randrange(0, 3)), rng.choice(["->", "→", "to", "in"]), g_target(rng))
    if r < 0.88:
        return "%s %s" % (rng.choice(["units for", "units of", "units", "factorize"]), g_expr(rng, rng.randrange(0, 3)))
    if r < 0.93:
        return "search %s" % rng.choice(["foo", "met", "", "1", "'x'", "kilogram", "\\u", "ππππ"])
    return "#%s#%s" % (g_date(rng), rng.choice(["", " + 1 day", " - #2020-01-01#", " -> +05:00", " -> \"US/Pacific\"", " * 2", " -> s"]))


SPECIAL_VALUES = ["(-8)^2.5", "1e200^2.5", "(1e-200)^-2.5", "(-1)^0.5", "(-2)^(1|3)", "2^0.5", "4^1.5", "ln(-1)", "log2(0)", "-log2(0)", "exp(1000)", "-exp(1000)", "sin(0)", "0", "-0", "0.0", "(1-1)", "(0-1)", "1e-400", "1e400",
                  "asin(2)", "(exp(1000)-exp(1000))", "2^0.5", "sqrt(2)", "1|3", "-1|3", "2147483647", "2147483648", "-2147483649",
                  "9223372036854775807", "9223372036854775808", "1e19", "1e-19", "4294967296", "0.1", "1.0000000000000001", "pi",
                  "ans", "now", "#2020-01-01#", "water", "(2 kg water)", "(3 m oxygen)", "(1 mol gold)", "'q'", "m", "m^-1", "s", "1 year",
                  "1e18 s", "-1e18 s", "9.3e15 s", "1e-10 s", "K", "degree", "byte", "USD", "1073741824", "715827883", "-2147483648", "3", "2"]
CONTEXTS = ["now + {} s", "now - {} s", "#2020-01-01# + {}", "#2020-01-01# - {}", "#2020-01-01 12:00 +05:00# + {} year", "now - {}",
            "2^{}", "{}^{}", "{}^-1", "{}^0.5", "{}^(1|3)", "1 << {}", "1 >> {}", "{} << 2", "{} mod 1", "1 mod {}", "{} mod {}", "{} and 1",
            "{} xor {}", "1 / {}", "{} / {}", "{} | {}", "{} {}", "{} + {}", "{} - {}", "-{}", "1 -> {}", "1 m -> {} m", "{} -> m", "{} -> {}",
            "{} -> digits 5", "{} -> digits", "{} -> frac", "{} -> sci", "{} -> eng base 7", "{} -> base 2", "{} -> hex", "{} hours",
            "{} degC", "{} -> degF", "{} K -> degC", "sqrt({})", "ln({})", "atan2({}, {})", "hypot({}, {})", "log({}, {})", "{} m -> ft;in",
            "{} -> hour;min;sec", "units for {}", "factorize {}", "{} water", "density of ({} water)", "mass of ({} m^3 water)",
            "{} -> UTC", "{} -> +05:00", "{} -> \"US/Pacific\"", "{} -> potato = {}", "{} of {}", "volume of {}", "{}%", "{} percent",
            "{} -> 1/{}", "{} -> ({})^-1", "{} -> {}/({})", "({}) ({})^2 -> {}", "{} + {} + {}", "{} -> {} + {}",
            # the previous answer as a list member / target (it may be zero, NaN, a date, a substance ...)
            "{}", "{}", "5 -> ans, ANS", "{} -> ans;ans", "{} -> _", "{} -> ans", "{} -> m, ans", "1 -> ans^-1", "{} -> 1/ans",
            # exponents of base units near the i32 / i64 limits
            "(m^{})^{}", "((m^{})^{})^{}", "m^{} * m", "m^{} m^{}", "m^{} / m^-{}", "(kg^{})^{}", "1 -> (m^{})^{}", "sqrt(m^{})",
            "(m^2)^1073741824", "(m^-2)^1073741824", "(byte^3)^715827883", "(m^2)^-1073741824",
            "((m^2147483647)^2147483647)^3", "((s^-2147483647)^2147483647)^-2",
            # years at the edge of i32 with BC, timezone targets (the parsed query must serialise)
            "#jan 1, -2147483647 bc#", "#-2147483647 jan 1 bc#", "#jan 1, 2147483647 bc#", "now -> UTC", "{} -> EST",
            "#2020-01-01# -> \"Europe/Paris\"", "{} -> digits 18446744073709551615",
            # operators inside a target whose constant comes out NaN / infinite
            "{} -> 2 mod (-8)^2.5", "1 m -> (7 mod (-8)^2.5) m", "{} -> {} mod {}", "1 -> ({} or {})", "1 m -> ({} mod 3) m"]
SUBSTANCES = ["water", "gold", "oxygen", "nitrogen", "H2O", "C2H6", "NaCl", "air", "2 kg water", "3 m oxygen", "1 mol gold", "5 liter water",
              "2 oxygen", "(1|0) water", "ln(-1) gold", "0 water", "1 kg nitrogen", "1 m oxygen", "iron / 2", "water * 3 s"]
OFFSETS = ["+00:00", "+23:59", "-23:59", "+24:00", "+99:99", "+999999:00", "-999999:00", "+2147483647:00", "+596523:00", "+596524:00",
           "+9999", "-9999", "+99999", "+0000", "US/Pacific", "Europe/London", "Foo/Bar", "utc", "UTC", "+1:00", "+001:00", "+00:60", "+12:5"]


def g_special(rng):
    """special values (NaN, infinities, zeros, boundary integers, dates, substances) in every operator/command context"""
    r = rng.random()
    if r < 0.7:
        ctx = rng.choice(CONTEXTS)
        n = ctx.count("{}")
        return ctx.format(*[rng.choice(SPECIAL_VALUES) for _ in range(n)])
    if r < 0.85:
        a, b = rng.choice(SUBSTANCES), rng.choice(SUBSTANCES)
        return rng.choice(["{} + {}", "{} - {}", "{} {}", "{} / {}", "{} -> {}", "molar_mass of ({} + {})", "({} + {}) -> g", "{} + {} + {}".replace("{} + {} + {}", "{} + {}")]).format(a, b)
    base = rng.choice(["2020-01-01 00:00:00", "2020-01-01 12:00", "2020-01-01T00:00", "jan 1, 1970 03:00 pm", "12:34:56", "1970 January 1 12:00", "2020-366 00:00"])
    lit = "#%s %s#" % (base, rng.choice(OFFSETS))
    return rng.choice(["{}", "{} + 1 day", "{} - #2020-01-01#", "{} -> +05:00", "now - {}", "{} -> UTC"]).format(lit)


SEARCH_UNITS = ["m", "kg", "s", "A", "K", "mol", "cd", "bit", "radian", "meter", "second", "gram", "newton", "joule", "watt", "volt", "ohm",
                "farad", "tesla", "pascal", "hertz", "ft", "lb", "gallon", "USD", "byte", "year", "c", "G", "hbar", "coulomb", "liter"]


def g_searchcmd(rng):
    """commands whose cost depends on a search space, not on the size of a value: factorize / units for over products of
    units with exponents up to +-12, and the same built up through ans"""
    r = rng.random()
    prod = " ".join("%s^%d" % (u, rng.choice([-12, -9, -7, -5, -4, -3, -2, -1, 1, 2, 3, 4, 5, 6, 7, 8, 10, 12]))
                    for u in rng.sample(SEARCH_UNITS, rng.randrange(2, 8)))
    if r < 0.08:
        # few factors, large exponents: one recursion level per factor of the product
        return rng.choice(["factorize m^22000", "factorize (m^150)^150", "factorize (m s kg A K mol cd bit)^2000",
                           "factorize m^%d" % rng.choice([300, 2000, 9999, 30000]), "factorize (m^2 s^-3)^%d" % rng.randrange(100, 5000),
                           "units for m^22000"])
    if r < 0.55:
        return "factorize " + prod
    if r < 0.7:
        return "units for " + prod
    if r < 0.8:
        return rng.choice(["ans * (%s)", "(%s) / ans", "ans / (%s)"]) % prod
    if r < 0.9:
        return rng.choice(["factorize ans", "units for ans", "factorize ans^2", "factorize 1/ans", "factorize ans^3 m"])
    return "search " + "".join(rng.choice("abcdefghijklmnopqrstuvwxyz_ ") for _ in range(rng.randrange(1, 300)))


def g_soup(rng):
    n = rng.randrange(1, 25)
    return "".join(rng.choice(TOKENS) + rng.choice(["", " ", " ", ""]) for _ in range(n))[:500]


def g_mutation(rng, corpus):
    s = rng.choice(corpus)
    for _ in range(rng.randrange(1, 4)):
        r = rng.random()
        if not s:
            s = rng.choice(TOKENS)
        i = rng.randrange(len(s) + 1)
        if r < 0.2:
            s = s[:i]                                       # truncate
        elif r < 0.4:
            j = min(len(s), i + rng.randrange(1, 4))
            s = s[:i] + s[j:]                               # delete
        elif r < 0.6:
            s = s[:i] + rng.choice(TOKENS) + s[i:]          # insert token
        elif r < 0.75:
            j = min(len(s), i + rng.randrange(1, 6))
            s = s[:i] + s[i:j] * 2 + s[j:]                  # duplicate
        elif r < 0.9:
            s = re.sub(r"\d+", lambda m: rng.choice(BOUNDARY_INTS) if rng.random() < 0.5 else m.group(0), s, count=2)
        else:
            toks = s.split(" ")
            rng.shuffle(toks)
            s = " ".join(toks)
    return s[:500]


def g_raw(rng):
    r = rng.random()
    if r < 0.25:
        ch = rng.choice(["(", "-", "+", "sqrt ", "sin ", "1^", "2**", "-(", "((1)", "1|", "a of ", "°C ", "1 - ", "#", "'", "ln ln "])
        n = rng.randrange(1, 500 // len(ch) + 1)
        tail = rng.choice(["", "1", "m", ")" * n, "1" + ")" * n])
        return (ch * n + tail)[:500]
    if r < 0.5:
        pools = ["\u0000\u0001\u007f", "  ​ ﻿", "°℃℉πμΩÅ⅞½²³", "٠١٢٣４５", "\U0001F600\U00010000", "'\"#\\/*",
                 "åéîøüßж中文", "\r\n\t "]
        return "".join(rng.choice(rng.choice(pools)) for _ in range(rng.randrange(1, 200)))
    if r < 0.75:
        return "".join(chr(rng.choice([rng.randrange(32, 127), rng.randrange(0x80, 0x800), rng.randrange(0x800, 0xd7ff),
                                       rng.randrange(0xe000, 0xffff), rng.randrange(0x10000, 0x10ffff)]))
                       for _ in range(rng.randrange(1, 300)))
    return "".join(rng.choice("0123456789.eE_+-xob ") for _ in range(rng.randrange(1, 500)))


# ---------------------------------------------------------------- cheap / expensive

_SEP = "_\u2009"
_NUM = r"(?:\d[\d_\u2009]*)?(?:\.[\d_\u2009]+)?(?:[eE][eE]?[+-]?[\d_\u2009]+)?"


_UNIT_POWER = re.compile(r"(?<![\w.)\]])(?!(?:ans|ANS|_)\b)[^\W\d]\w*\s*(?:\^|\*\*)\s*[-+]?\d{1,2}(?![\d.eE|_\u2009]|\s*(?:\^|\*\*))")


def _literal_value(tok):
    """value of a decimal literal as the lexer reads it (separators skipped), or None"""
    t = "".join(c for c in tok if c not in _SEP)
    m = re.fullmatch(r"(\d*)(?:\.(\d+))?(?:[eE][eE]?([+-]?\d+))?", t)
    if not m or not (m.group(1) or m.group(2)):
        return None
    ip, fp, ex = m.group(1) or "0", m.group(2) or "", m.group(3)
    if ex is not None and len(ex) > 6:
        return float("inf")
    try:
        return float("%s.%se%s" % (ip, fp or "0", ex or "0"))
    except (ValueError, OverflowError):
        return float("inf")


def is_expensive(text):
    """Conservative lexical rule: only inputs classed cheap are obliged to finish within the watchdog.
    Expensive (or unknown) iff: two or more power/shift operators; a literal with a decimal exponent of 1000
    or more (or exponents summing over 3000); a power/shift/digits operand that is a literal of value >= 1000,
    or that is not a literal at all (its size cannot be bounded lexically)."""
    nops = sum(text.count(t) for t in ("^", "<<", ">>")) + len(re.findall(r"\*\*", text))
    # a name raised to a literal of at most two digits (`m^12 kg^3 s^-7`) cannot make anything large
    nops -= len(_UNIT_POWER.findall(text))
    if nops >= 2:
        return True
    exps = []
    for m in re.finditer(r"[eE][eE]?[+-]?([\d_\u2009]+)", text):
        ds = "".join(c for c in m.group(1) if c.isdigit())
        if not ds:
            continue
        if len(ds) > 6:
            return True
        exps.append(int(ds))
    if any(e >= 1000 for e in exps) or sum(exps) > 3000:
        return True
    # a literal base raised to a literal exponent: the size of the result is bits(base) x exponent (`9223372036854775807^999`
    # has 63000 bits although 999 < 1000; printing all the digits of such a number takes minutes in the probe profile)
    for m in re.finditer(r"(\d[\d_\u2009]*(?:\.[\d_\u2009]+)?(?:[eE][eE]?[+-]?[\d_\u2009]+)?)\s*(?:\^|\*\*)\s*[(+\-\u2212\s]*(\d[\d_\u2009]*)", text):
        b, e = _literal_value(m.group(1)), _literal_value(m.group(2))
        if b is None or e is None:
            return True
        import math
        if b == float("inf") or e == float("inf") or (b > 1 and e * math.log2(b) > 16384) or (0 < b < 1 and e * -math.log2(b) > 16384):
            return True
    for m in re.finditer(r"(\^|\*\*|<<|>>|digits)\s*", text):
        rest = text[m.end():]
        rest = rest.lstrip(" (+-\u2212")
        rm = re.match(r"0([xob])([0-9a-fA-F_\u2009]*)", rest)
        if rm:
            ds = "".join(c for c in rm.group(2) if c not in _SEP)
            try:
                if ds and int(ds, {"x": 16, "o": 8, "b": 2}[rm.group(1)]) >= 1000:
                    return True
            except ValueError:
                return True
            continue
        lm = re.match(_NUM, rest)
        tok = lm.group(0) if lm else ""
        if not tok:
            if m.group(1) == "digits":
                continue                      # `digits` without a count
            return True                       # operand is a name or an expression: unknown size
        v = _literal_value(tok)
        if v is None or v >= 1000:
            return True
        if m.group(1) in ("<<", ">>"):
            # the count of a shift is a whole juxtaposition (`1 << 999 million`): anything but an operator after the
            # literal makes its size unknown
            after = rest[len(tok):].lstrip()
            w = re.match(r"[^\W\d]\w*", after)
            if after and not (after[0] in ")+-*/|,;=<>\u2192\u2212" or (w and w.group(0) in ("to", "in", "per", "mod", "and", "or", "xor"))):
                return True
    return False


# ---------------------------------------------------------------- worker

def run_history(part, probe, rng, corpus, length, budget):
    kind = "currency" if rng.random() < 0.2 else "bundled"
    cid = probe.ctx(kind, save_prev=True)
    chain = []
    if rng.random() < 0.15:
        # repeated squaring through the previous answer: exponents of base units double at every step
        chain = [rng.choice(["(m 'foo')^2147483647", "(m s)^2147483647", "m s", "1 / (kg m)^2147483647"])] + \
                [rng.choice(["ans ans", "ans * ans", "ans / (1 / ans)", "ans^2"])] * 66
    for step in range(length):
        gen = rng.choice(["grammar", "grammar", "soup", "mutation", "mutation", "raw", "special", "special"])
        if rng.random() < 0.03:
            gen = "searchcmd"           # about 2 s each in the probe profile: kept rare
        text = {"grammar": g_grammar, "soup": g_soup, "raw": g_raw, "special": g_special, "searchcmd": g_searchcmd}.get(gen, lambda r: g_mutation(r, corpus))(rng)
        if chain:
            gen, text = "chain", chain.pop(0)
        text = text.replace("\n", " ")[:500]
        part.evaluations += 1
        cheap = not is_expensive(text)
        r = probe.request({"op": "eval", "ctx": cid, "q": text}, timeout=budget if cheap else min(budget, 3))
        if "timeout" in r and not cheap:
            # an expensive input may take long by the statement; nothing to decide, and no point re-running it
            part.inconclusive_event("expensive input exceeded the watchdog", {"input": text[:200]})
            cid = probe.ctx(kind, save_prev=True)
            continue
        if "died" in r and "overflowed its stack" in (r.get("stderr") or ""):
            # running out of stack is never what the cost exemption is about (only *taking long* is)
            part.violation({"kind": "stack_overflow", "generator_class": _shape(text)},
                           {"input": text, "stderr": (r.get("stderr") or "")[-200:], "cheap": cheap},
                           "input overflows the stack (the process aborts)")
            cid = probe.ctx(kind, save_prev=True)
            continue
        if "timeout" in r or "died" in r:
            how = "timeout" if "timeout" in r else "died:%s" % r.get("died")
            # isolation re-run on a fresh probe with 3x the budget before it counts
            cid = probe.ctx(kind, save_prev=True)
            r2 = probe.request({"op": "eval", "ctx": cid, "q": text}, timeout=budget * 3)
            if "timeout" in r2 or "died" in r2:
                how2 = "timeout" if "timeout" in r2 else "died:%s" % r2.get("died")
                if cheap:
                    part.violation({"kind": "no_reply", "how": how2, "generator_class": _shape(text)},
                                   {"input": text, "first": how, "isolated": how2, "cheap": cheap},
                                   "input crashes the process or hangs (cheap by the static size rule)" if cheap else
                                   "input aborts the process")
                else:
                    # an astronomically large result may exhaust memory or time: that is what the sandbox is for
                    part.inconclusive_event("expensive input exceeded the watchdog or the memory limit", {"input": text[:200], "how": how2})
                cid = probe.ctx(kind, save_prev=True)
                continue
            r = r2
            part.count("slow_but_finished_alone")
        if "harness_error" in r:
            raise HarnessError(r["harness_error"])
        if r.get("query_json_error"):
            # the parsed query as JSON is what rink-js hands to JavaScript, unwrapping the result
            part.violation({"kind": "query_not_serialisable", "message": str(r["query_json_error"])[:80]},
                           {"input": text, "error": r["query_json_error"]},
                           "the parsed query cannot be serialised (rink-js unwraps this error)")
        part.count("gen:" + gen)
        rep = r.get("r") or {}
        k = rep.get("kind") or "none"
        part.count("reply:" + k)
        if r.get("panics"):
            for p in r["panics"]:
                sig = panic_sig(p)
                sig["phase"] = p.get("phase")
                part.violation(sig, {"input": text, "panic": p, "generator": gen},
                               "panic while %s" % {"eval": "lexing/parsing/evaluating", "to_string": "rendering plain text",
                                                   "to_spans": "rendering the span tree", "serde_json": "rendering JSON",
                                                   "walk": "reading the reply", "prev": "reading ans"}.get(p.get("phase"), "?"))
        if not (k == "err_generic" and str(rep.get("message", "")).startswith("Expected term, got <")):
            part.seen(text)       # got past the lexer
        if step % 40 == 0:
            part.sample({"input": text[:100], "generator": gen, "reply": k})
    # the context stays usable
    h = probe.request({"op": "eval", "ctx": cid, "q": "1 + 1"}, timeout=30)
    if (h.get("r") or {}).get("kind") != "number" or h["r"]["value"]["exact"] != "2":
        part.violation({"kind": "context_unusable_after_history"}, {"reply": str(h)[:300]},
                       "after a history of hostile inputs the context no longer answers 1 + 1")
    else:
        part.count("health_ok")


def _shape(text):
    s = re.sub(r"[A-Za-z]+", "a", text)
    s = re.sub(r"\d+", "9", s)
    s = re.sub(r"\s+", " ", s)
    return re.sub(r"(.)\1{3,}", r"\1\1\1", s)[:40]


def work(idx, _chunk, seed, n_hist, length, budget, corpus):
    probe = worker_probe()
    part = Part()
    rng = random.Random((seed << 13) ^ (idx * 12289 + 17))
    for _ in range(n_hist):
        run_history(part, probe, rng, corpus, length, budget)
        part.count("histories")
    return part.export()


# ---------------------------------------------------------------- real CLI slice

RINK_BIN = os.path.join(TARGET, "rink-cli", "release", "rink")


def build_cli():
    # the shipped (release) profile: stack depth and overflow behaviour are those users get
    r = subprocess.run(["cargo", "build", "--offline", "--release", "-p", "rink", "--manifest-path", "/repo/Cargo.toml",
                        "--target-dir", os.path.join(TARGET, "rink-cli")], env=cargo_env(),
                       stdout=subprocess.PIPE, stderr=subprocess.STDOUT, text=True)
    if r.returncode != 0:
        sys.stderr.write(r.stdout[-4000:])
        raise HarnessError("building the rink CLI failed (harness failure)")


def cli_slice(run, seed, n, corpus):
    """process-level observation through the shipped frontend: exit status, signal, one block per input line"""
    rng = random.Random(seed ^ 0xC11)
    os.makedirs(RUN_DIR, exist_ok=True)
    home = tempfile.mkdtemp(prefix="cli-", dir=RUN_DIR)
    os.makedirs(os.path.join(home, "config", "rink"))
    open(os.path.join(home, "config", "rink", "config.toml"), "w").write("[currency]\nenabled = false\n[limits]\nenabled = false\n")
    env = dict(os.environ, XDG_CONFIG_HOME=os.path.join(home, "config"), XDG_CACHE_HOME=os.path.join(home, "cache"),
               HOME=home, NO_COLOR="1", RUST_BACKTRACE="0")
    lines = []
    for _ in range(n):
        gen = rng.choice(["grammar", "soup", "mutation", "raw", "special"])
        t = {"grammar": g_grammar, "soup": g_soup, "raw": g_raw, "special": g_special}.get(gen, lambda r: g_mutation(r, corpus))(rng)
        t = t.replace("\n", " ").replace("\r", " ")[:500]
        if is_expensive(t) or not t.strip():
            continue
        lines.append(t)
    batch = 200
    for i in range(0, len(lines), batch):
        chunk = lines[i:i + batch]
        data = ("\n".join(chunk) + "\n").encode("utf-8", errors="replace")
        try:
            p = subprocess.run([RINK_BIN, "-f", "-"], input=data, env=env, stdout=subprocess.PIPE, stderr=subprocess.PIPE,
                               timeout=120, cwd=home)
        except subprocess.TimeoutExpired:
            run.inconclusive_event("CLI batch exceeded 120 s", {"first_line": chunk[0][:100]})
            continue
        run.evaluations += len(chunk)
        run.count("cli_lines", len(chunk))
        if p.returncode != 0:
            # find the offending line by bisection replay
            culprit = None
            for t in chunk:
                try:
                    q = subprocess.run([RINK_BIN, "-f", "-"], input=(t + "\n").encode("utf-8", errors="replace"), env=env,
                                       stdout=subprocess.PIPE, stderr=subprocess.PIPE, timeout=60, cwd=home)
                except subprocess.TimeoutExpired:
                    continue
                if q.returncode != 0:
                    culprit = (t, q.returncode, q.stderr.decode(errors="replace")[-600:])
                    break
            if culprit:
                msg = culprit[2]
                m = re.search(r"panicked at ([^\n]*)", msg)
                loc = re.sub(r":\d+:\d+:?$", "", m.group(1)) if m else ""
                run.violation({"kind": "cli_process_failed", "status": culprit[1], "at": loc},
                              {"input": culprit[0], "stderr": msg}, "the rink binary exited abnormally on one input line")
            else:
                run.inconclusive_event("CLI batch failed but no single line reproduces it", {"status": p.returncode})
        else:
            run.count("cli_batches_ok")
    import shutil
    shutil.rmtree(home, ignore_errors=True)


def run(tier, seed):
    run = Run("C04", tier, seed, "exploration", floor=1000)
    run.rule = ("inputs <= 500 characters from six interleaved generators (search-space commands: factorize / units for over unit products with exponents up to +-12, also built up through ans; a grid of special values - NaN, infinities, zeros, boundary integers, dates, substances - in every operator/command context; grammar-directed over the whole query language with "
                "boundary integers planted in every numeric position; token soup over every token spelling; mutations of a corpus "
                "extracted from the manual and the test suite; raw Unicode incl. nesting stress), evaluated in histories on "
                "long-lived contexts with text, span-tree and JSON rendering, health query after every history, plus a slice "
                "through the real `rink -f -` binary; non-trivial = distinct input that got past the lexer")
    run.assumptions = ["cheap/expensive: an input is expensive iff it has >= 2 power/shift operators (not counting a name raised to a literal of at most two digits), an e-notation exponent >= 1000 "
                       "(or exponents summing over 3000), or a power/shift/digits operand of more than 3 digits, or a literal base and exponent whose result exceeds 16384 bits, or a shift count followed by a juxtaposed term; only cheap inputs "
                       "are obliged to answer within the watchdog (re-run alone with 3x budget before it counts)",
                       "probe profile: opt-level 1, overflow checks and debug assertions on, 8 MiB stack, 4 GiB address space"]
    corpus = load_corpus()
    if len(corpus) < 50:
        raise HarnessError("seed corpus too small (%d)" % len(corpus))
    run.extra_cov["seed_corpus_queries"] = len(corpus)
    if tier == "quick":
        n_hist, length, budget, n_cli = 10, 200, 10, 3000
    else:
        n_hist, length, budget, n_cli = 300, 200, 30, 60000
    per = nproc()
    for res in shard_map(work, [None] * per, (seed, n_hist, length, budget, corpus)):
        run.merge(res)
    build_cli()
    cli_slice(run, seed, n_cli, corpus)
    return run.finish()


if __name__ == "__main__":
    from lib.common import tier_seed
    a = tier_seed()
    sys.exit(run(a.tier, a.seed))
