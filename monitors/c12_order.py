"""C12 — definition order does not matter.

History-invariant monitor: the same set of uniquely named definitions is loaded in many
orders and file splits by the real loader; the resulting databases (canonical dumps, prefix
order included) must be byte-identical and every load must succeed."""
import json
import random
import sys

from lib.common import Part, Run, panic_sig
from lib.probe import shard_map, split, worker_probe, nproc, HarnessError
from lib import rinkast


def canon(d):
    return json.dumps(d, sort_keys=True, ensure_ascii=False)


def entry_keys(e):
    ns = {"prefix": "P", "quantity": "Q", "category": "C"}.get(e["kind"], "U")
    keys = {(ns, e["name"])}
    if e["kind"] == "baseunit" and e["extra"].get("long_name"):
        keys.add(("U", e["extra"]["long_name"]))
    return keys


def groups_of(keysets):
    """indices grouped by shared (namespace, name) keys (union-find)."""
    parent = list(range(len(keysets)))

    def find(x):
        while parent[x] != x:
            parent[x] = parent[parent[x]]
            x = parent[x]
        return x
    owner = {}
    for i, ks in enumerate(keysets):
        for k in ks:
            if k in owner:
                a, b = find(i), find(owner[k])
                if a != b:
                    parent[a] = b
            else:
                owner[k] = i
    groups = {}
    for i in range(len(keysets)):
        groups.setdefault(find(i), []).append(i)
    return [g for g in groups.values() if len(g) > 1]


def respect_groups(order, groups):
    """Entries sharing a name keep their relative order (duplicates are last-wins by design)."""
    pos = {idx: p for p, idx in enumerate(order)}
    order = list(order)
    for g in groups:
        slots = sorted(pos[i] for i in g)
        for s, i in zip(slots, sorted(g)):
            order[s] = i
    return order


def inversion_class(order):
    """Coarse fingerprint of a permutation: displaced fraction bucket + first elements."""
    n = len(order)
    disp = sum(1 for i, x in enumerate(order) if i != x)
    return "%d/%d:%s" % (disp * 10 // max(n, 1), 10, ",".join(map(str, order[:3])))


def diff_summary(a, b):
    out = []
    for k in sorted(set(a) | set(b)):
        if canon(a.get(k)) != canon(b.get(k)):
            va, vb = a.get(k), b.get(k)
            if isinstance(va, dict) and isinstance(vb, dict):
                ks = [x for x in sorted(set(va) | set(vb)) if canon(va.get(x)) != canon(vb.get(x))]
                out.append({"section": k, "differing_keys": ks[:8], "n": len(ks),
                            "first": [va.get(ks[0]), vb.get(ks[0])] if ks else None})
            else:
                out.append({"section": k, "a": str(va)[:200], "b": str(vb)[:200]})
    return out[:6]


def load_and_dump(probe, steps):
    r = probe.request({"op": "load", "steps": steps}, timeout=120)
    if "ctx" not in r:
        return None, r, None
    cid = r["ctx"]
    d = probe.request({"op": "dump", "ctx": cid}, timeout=120)
    probe.request({"op": "dropctx", "ctx": cid})
    return d.get("dump"), r, cid


def judge_load(part, what, r, dump, ref_canon, ref_dump, witness):
    part.evaluations += 1
    if dump is None:
        part.inconclusive_event("probe gave no dump", {"what": what, "reply": str(r)[:300]})
        return
    for res in r["results"]:
        if "panic" in res:
            part.violation(panic_sig(res["panic"]), dict(witness, panic=res["panic"]), "loader panic under reordering")
            return
        if not res["ok"]:
            part.violation({"kind": "load_fails_under_reordering", "what": what},
                           dict(witness, err=res.get("err", "")[:600]),
                           "a reordered load of uniquely named definitions reports errors")
            return
    if canon(dump) != ref_canon:
        part.violation({"kind": "database_differs_under_reordering", "what": what},
                       dict(witness, diff=diff_summary(ref_dump, dump)),
                       "same definitions, different order/split => different database")
        return
    part.count("identical:" + what)


# ---------------------------------------------------------------- bundled database

def work_bundled(idx, chunk, seed, n_entries, groups, pieces, piece_groups):
    probe = worker_probe()
    part = Part()
    ref, r0, _ = load_and_dump(probe, [{"kind": "text", "source": "bundled"}])
    if ref is None:
        raise HarnessError("reference load failed: %r" % (r0,))
    ref_c = canon(ref)
    for job in chunk:
        kind = job[0]
        if kind == "perm":
            _, label, order = job
            order = respect_groups(order, groups)
            dump, r, _ = load_and_dump(probe, [{"kind": "perm", "source": "bundled", "order": order}])
            judge_load(part, "entry-permutation", r, dump, ref_c, ref,
                       {"label": label, "order_head": order[:20]})
            part.seen("perm|" + inversion_class(order) + "|" + label)
            part.sample({"kind": "entry permutation", "label": label, "first_indices": order[:8]})
        else:
            _, label, order = job
            order = respect_groups(order, piece_groups)
            texts = [pieces[i] for i in order]
            # pieces are grouped into 1..3 "files" and each file is parsed separately
            nfiles = 1 + (hash(label) % 3)
            files = []
            per = max(1, (len(texts) + nfiles - 1) // nfiles)
            for i in range(0, len(texts), per):
                files.append("\n".join(texts[i:i + per]))
            dump, r, _ = load_and_dump(probe, [{"kind": "texts", "texts": files}])
            judge_load(part, "text-split", r, dump, ref_c, ref,
                       {"label": label, "piece_order_head": order[:20], "files": len(files)})
            part.seen("text|" + inversion_class(order) + "|%d" % len(files))
            part.sample({"kind": "text pieces", "label": label, "files": len(files), "first_pieces": order[:8]})
    return part.export()


# -------------------------------------------------------------- generated databases

def gen_blocks(rng, size):
    """Blocks (one definition each) of a database with unique names: chains, fans, diamonds,
    prefixes referring to prefixes, quantities referring to quantities, substances referring
    to units defined elsewhere."""
    blocks = []
    bases = ["ba", "bb", "bc"][:rng.randrange(1, 4)]
    for b in bases:
        blocks.append("%s !%s" % (b, b + "long") if rng.random() < 0.5 else "%s !" % b)
    units = list(bases)
    # prefixes
    pnames = []
    for i in range(rng.randrange(1, 5)):
        p = "p%c" % (ord("q") + i)
        if pnames and rng.random() < 0.5:
            val = "%s" % rng.choice(pnames) if rng.random() < 0.5 else "%s^%d" % (rng.choice(pnames), rng.randrange(1, 4))
        else:
            val = rng.choice(["1e3", "1e-3", "2^10", "1|60", "12"])
        blocks.append("%s%s %s" % (p, "-" if rng.random() < 0.5 else "--", val))
        pnames.append(p)
    # names that split into prefix + unit in more than one way (d + au / da + u; the prefixes and the units
    # are all uniquely named, only a *reference* is ambiguous): the loader must resolve them the same way
    # whatever the order of the prefix and unit definitions
    if rng.random() < 0.6:
        a, b = rng.choice([("x", "xy"), ("d", "da"), ("k", "ki"), ("m", "mi")])
        rest_a, rest_b = rng.choice([("yz", "z"), ("au", "u"), ("in", "n")]) if a != "x" else ("yz", "z")
        if a == "d":
            rest_a, rest_b = "au", "u"
        elif a in ("k", "m"):
            rest_a, rest_b = "in", "n"
        # prefix a + unit rest_a  ==  prefix b + unit rest_b  as strings
        if a + rest_a == b + rest_b:
            blocks.append("%s-- %s" % (a, rng.choice(["1|10", "1e3", "7"])))
            blocks.append("%s-- %s" % (b, rng.choice(["10", "1e-3", "3"])))
            blocks.append("%s %d %s" % (rest_a, rng.randrange(2, 99), bases[0]))
            blocks.append("%s %d %s" % (rest_b, rng.randrange(2, 99), bases[-1]))
            blocks.append("amb1 3 %s" % (a + rest_a))
            blocks.append("amb2 %s / 5" % (a + rest_a))
            units += [rest_a, rest_b]
    shape = rng.choice(["chain", "fan", "diamond", "mixed"])
    n = size
    for i in range(n):
        name = "u%d" % i
        if shape == "chain" or (shape == "mixed" and rng.random() < 0.4):
            dep = units[-1]
        elif shape == "fan":
            dep = units[rng.randrange(len(bases))] if i else units[0]
        else:
            dep = rng.choice(units)
        r = rng.random()
        if r < 0.2:
            expr = dep
        elif r < 0.6:
            expr = "%d %s" % (rng.randrange(2, 9), dep)
        elif r < 0.8:
            other = rng.choice(bases)        # only base units as co-factors: values stay small
            expr = "%s %s / %d" % (dep, other, rng.randrange(2, 5))
        elif pnames and r < 0.9:
            expr = "%s%s" % (rng.choice(pnames), dep)
        else:
            b = rng.choice(bases)
            expr = "%d %ss^2" % (rng.randrange(2, 5), b)      # plural form of a base unit, squared
        blocks.append("%s %s" % (name, expr))
        units.append(name)
    # quantities
    qn = []
    qdims = {}
    for i, b in enumerate(bases):
        blocks.append("q%d ? %s" % (i, b))
        qn.append("q%d" % i)
        qdims["q%d" % i] = {b: 1}
    for i in range(rng.randrange(1, 4)):
        a, b = rng.choice(qn), rng.choice(qn)
        if rng.random() < 0.5:
            cand, e = "%s %s" % (a, b), 1
        else:
            e = -rng.randrange(2, 4)
            cand = "%s / %s^%d" % (a, b, -e)
        d = dict(qdims[a])
        for k, p in qdims[b].items():
            d[k] = d.get(k, 0) + p * e
            if not d[k]:
                del d[k]
        # two quantities of one dimensionality conflict by design: keep the database valid
        if not d or any(d == v for v in qdims.values()):
            continue
        blocks.append("qq%d ? %s" % (i, cand))
        qn.append("qq%d" % i)
        qdims["qq%d" % i] = d
    # references to a base unit by its long name, from names sorting before and after the base unit's own name
    for b in bases:
        if any(bl.startswith("%s !%slong" % (b, b)) for bl in blocks):
            blocks.append("aaa%s 3 %slong" % (b, b))
            blocks.append("zzz%s 5 %slongs" % (b, b))
    # substances referring to units anywhere in the file
    for i in range(rng.randrange(1, 4)):
        u1, u2 = rng.choice(units), rng.choice(units)
        blocks.append("sub%d {\n    dens%d   mss%d %d %s / vol%d %s\n    konst%d const kin%d %d %s\n}" %
                      (i, i, i, rng.randrange(2, 9), u1, i, u2, i, i, rng.randrange(2, 9), u1))
    # documentation comments travel with the definition they precede (units, prefixes, quantities, substances alike)
    blocks = [("?? About %s, definition %d.\n%s" % (b.split()[0].rstrip("-"), n, b)) if rng.random() < 0.3 else b
              for n, b in enumerate(blocks)]
    blocks.append('!category cat "Category"\ncatunit %s\n!endcategory' % rng.choice(units))
    return blocks


def work_generated(idx, chunk, seed, shuffles):
    probe = worker_probe()
    part = Part()
    for dbseed in chunk:
        rng = random.Random(dbseed)
        size = rng.choice([10, 50, 50, 200, 400, 2000 if dbseed % 7 == 0 else 100])
        blocks = gen_blocks(rng, size)
        ref, r0, _ = load_and_dump(probe, [{"kind": "text", "text": "\n".join(blocks) + "\n"}])
        if ref is None:
            part.inconclusive_event("reference load gave no dump", {"dbseed": dbseed})
            continue
        if any(not res["ok"] for res in r0["results"]):
            # the generator only emits valid, uniquely named definitions: a refusal is the loader's
            part.evaluations += 1
            part.violation({"kind": "valid_generated_database_rejected", "message": _fam(r0["results"][0].get("err", ""))},
                           {"dbseed": dbseed, "err": r0["results"][0].get("err", "")[:500], "text": "\n".join(blocks)[:1500]},
                           "a valid database of uniquely named definitions does not load (a reference does not resolve)")
            continue
        ref_c = canon(ref)
        part.count("generated_databases")
        orders = [("reversed", list(reversed(range(len(blocks)))))]
        for k in range(shuffles):
            o = list(range(len(blocks)))
            rng.shuffle(o)
            orders.append(("shuffle%d" % k, o))
        for label, o in orders:
            nfiles = rng.randrange(1, 4)
            per = max(1, (len(o) + nfiles - 1) // nfiles)
            files = ["\n".join(blocks[i] for i in o[j:j + per]) + "\n" for j in range(0, len(o), per)]
            dump, r, _ = load_and_dump(probe, [{"kind": "texts", "texts": files}])
            judge_load(part, "generated", r, dump, ref_c, ref,
                       {"dbseed": dbseed, "label": label, "files": len(files), "order_head": o[:20],
                        "size": len(blocks)})
            part.seen("gen|%d|%s" % (dbseed, label))
        part.sample({"kind": "generated database", "dbseed": dbseed, "definitions": len(blocks),
                     "orders": len(orders)})
    return part.export()


def _fam(msg):
    import re
    line = (msg.split("\n") + ["", ""])[1]
    return re.sub(r"\d+", "N", line)[:80]


def dependency_reversed(entries):
    """dependents before what they depend on (longest dependency depth first)."""
    byname = {}
    for i, e in enumerate(entries):
        byname.setdefault(e["name"], i)
    depth = {}

    def d(i, stack=()):
        if i in depth:
            return depth[i]
        if i in stack:
            return 0
        best = 0
        for ex in entries[i]["exprs"]:
            for n in rinkast.names_in(ex["ast"]):
                j = byname.get(n)
                if j is not None and j != i:
                    best = max(best, 1 + d(j, stack + (i,)))
        depth[i] = best
        return best
    sys.setrecursionlimit(20000)
    return sorted(range(len(entries)), key=lambda i: (-d(i), i))


def run(tier, seed):
    run = Run("C12", tier, seed, "exploration", floor=8)
    run.rule = ("loads of one definition multiset in different orders/splits through the real loader: entry-level "
                "permutations of the parsed bundled file (identity, reversal, dependency-reversed, rotations, seeded "
                "shuffles), text-level pieces cut at !endcategory lines parsed as 1..3 separate files, and generated "
                "databases (chains, fans, diamonds, prefix/quantity/substance cross references, ambiguous prefix splits, long-name "
                "references, doc comments on 30% of the blocks) shuffled and split at text level; a valid generated database must load; "
                "non-trivial = distinct (permutation class, split) whose dump was compared byte for byte")
    run.assumptions = ["entries sharing a (namespace, name) keep their relative order: duplicates are last-wins by design "
                       "(the bundled file declares some category ids twice)",
                       "for the bundled file the unit of permutation is a parsed definition (docs and category travel with it); generated "
                       "databases are permuted as text blocks, so the parser runs on every order"]
    probe = worker_probe()
    r = probe.request({"op": "defs", "source": "bundled"}, timeout=120)
    if "defs" not in r:
        raise HarnessError("defs failed: %r" % (r,))
    entries = r["defs"]
    n = len(entries)
    groups = groups_of([entry_keys(e) for e in entries])
    # text pieces
    src = open("/repo/core/definitions.units", encoding="utf-8").read()
    pieces, cur = [], []
    for line in src.split("\n"):
        cur.append(line)
        if line.strip() == "!endcategory":
            pieces.append("\n".join(cur) + "\n")
            cur = []
    if cur:
        pieces.append("\n".join(cur) + "\n")
    pkeys = []
    for p in pieces:
        rr = probe.request({"op": "defs", "text": p}, timeout=120)
        ks = set()
        for e in rr.get("defs", []):
            ks |= entry_keys(e)
        pkeys.append(ks)
    piece_groups = groups_of(pkeys)
    rng = random.Random(seed)
    nshuf = 24 if tier == "quick" else 600
    nrot = 8 if tier == "quick" else 16
    jobs = [("perm", "identity", list(range(n))), ("perm", "reversed", list(reversed(range(n)))),
            ("perm", "dependency-reversed", dependency_reversed(entries))]
    for k in range(nrot):
        c = (k + 1) * n // (nrot + 1)
        jobs.append(("perm", "rotation%d" % k, list(range(c, n)) + list(range(c))))
    for k in range(nshuf):
        o = list(range(n))
        rng.shuffle(o)
        jobs.append(("perm", "shuffle%d" % k, o))
    m = len(pieces)
    jobs.append(("text", "pieces-identity", list(range(m))))
    jobs.append(("text", "pieces-reversed", list(reversed(range(m)))))
    for k in range(nshuf):
        o = list(range(m))
        rng.shuffle(o)
        jobs.append(("text", "pieces-shuffle%d" % k, o))
    run.extra_cov["bundled_entries"] = n
    run.extra_cov["duplicate_name_groups"] = [[entries[i]["name"] for i in g][:4] for g in groups][:12]
    run.extra_cov["text_pieces"] = m
    for res in shard_map(work_bundled, split(jobs, nproc()), (seed, n, groups, pieces, piece_groups)):
        run.merge(res)
    ndb = 240 if tier == "quick" else 20000
    shuffles = 3 if tier == "quick" else 6
    seeds = [seed * 7919 + i for i in range(ndb)]
    for res in shard_map(work_generated, split(seeds, nproc() * 2), (seed, shuffles)):
        run.merge(res)
    return run.finish()


if __name__ == "__main__":
    from lib.common import tier_seed
    a = tier_seed()
    sys.exit(run(a.tier, a.seed))
