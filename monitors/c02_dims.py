"""C02 — dimensional analysis is sound.

Reference-model monitor: expression trees over all operators and functions with unit leaves
are evaluated by the real rink and by an independent exponent-vector algebra; the reply's
dimensionality (and the refusals the algebra demands) are judged event by event."""
import random
import re
import sys
from fractions import Fraction

from lib import refexpr as R
from lib.common import Part, Run, panic_sig
from lib.probe import shard_map, worker_probe, nproc
from lib.registry import Registry, dims_key, render_name, KEYWORDS

_REG = None
RAD = {"radian": 1}


def get_reg(probe):
    global _REG
    if _REG is None:
        d = probe.request({"op": "dump", "ctx": probe.ctx("bundled")}, timeout=120)
        _REG = Registry(d["dump"])
    return _REG


class Refuse(Exception):
    """the algebra demands an error"""


class MustError(Exception):
    """value-gated error (division by zero, root of negative...)"""


class Abstain(Exception):
    pass


class DV:
    """dims + exact value when known (None after float functions) + flag: may rink legitimately error?"""
    __slots__ = ("d", "v", "soft")

    def __init__(self, d, v, soft=False):
        self.d = d
        self.v = v
        self.soft = soft


def dims_eval(e, reg, st):
    """st: dict collecting 'soft' (an error is admissible because a value is unknown) and ops seen"""
    k = e[0]
    if k == "num":
        return DV({}, e[1])
    if k == "quote":
        return DV({e[1]: 1}, Fraction(1))
    if k == "unit":
        v, how = reg.lookup(e[1])
        if v is None:
            raise Abstain("unknown name")
        return DV(dict(v.d), None if v.f else v.v)
    if k in ("pos", "neg"):
        a = dims_eval(e[1], reg, st)
        return DV(a.d, None if a.v is None else (-a.v if k == "neg" else a.v))
    if k == "mul":
        d, v = {}, Fraction(1)
        for t in e[1]:
            a = dims_eval(t, reg, st)
            d = R.dmul(d, a.d)
            v = None if (v is None or a.v is None) else v * a.v
        st["ops"].add("juxt/*")
        return DV(d, v)
    if k == "bin":
        op = e[1]
        a = dims_eval(e[2], reg, st)
        b = dims_eval(e[3], reg, st)
        st["ops"].add(op)
        if op == "*":
            return DV(R.dmul(a.d, b.d), None if (a.v is None or b.v is None) else a.v * b.v)
        if op in ("/", "|"):
            if b.v is None:
                st["soft"] = True
                return DV(R.dmul(a.d, b.d, -1), None)
            if b.v == 0:
                raise MustError("division by zero")
            return DV(R.dmul(a.d, b.d, -1), None if a.v is None else a.v / b.v)
        if op in ("+", "-"):
            if dims_key(a.d) != dims_key(b.d):
                raise Refuse("%s of different dimensionalities" % op)
            v = None if (a.v is None or b.v is None) else (a.v + b.v if op == "+" else a.v - b.v)
            return DV(a.d, v)
        if op == "mod":
            if dims_key(a.d) != dims_key(b.d):
                raise Refuse("mod of different dimensionalities")
            if b.v is None:
                st["soft"] = True
                return DV(a.d, None)
            if b.v == 0:
                raise MustError("mod by zero")
            if a.v is None:
                return DV(a.d, None)
            return DV(a.d, a.v - b.v * R.trunc_div(a.v, b.v))
        if op == "^":
            if b.d:
                raise Refuse("exponent with dimension")
            if b.v is None:
                raise Abstain("exponent value unknown")
            if abs(b.v) >= 1 << 31:
                raise MustError("documented exponent limit")
            if b.v.denominator == 1:
                n = b.v.numerator
                if a.v is not None and a.v == 0 and n < 0:
                    raise MustError("zero to negative power")
                if a.v is None and n < 0:
                    st["soft"] = True
                if a.v is not None and a.v != 0 and (a.v.numerator.bit_length() + a.v.denominator.bit_length()) * abs(n) > 1 << 22:
                    raise Abstain("too large")
                v = None if a.v is None else R.fpow(a.v, n)
                return DV(R.dpow(a.d, n), v)
            if b.v.numerator == 1:
                n = b.v.denominator
                if a.v is None:
                    st["soft"] = True
                elif a.v < 0:
                    raise MustError("root of negative")
                for p in a.d.values():
                    if p % n:
                        raise Refuse("root must be exact in every base unit")
                return DV({kk: p // n for kk, p in a.d.items()}, None)
            if a.d:
                raise Refuse("non-integer power of dimensioned value")
            st["soft"] = True     # float pow of negative base gives NaN, not an error; value unknown
            return DV({}, None)
        if op in ("<<", ">>"):
            if b.d:
                raise Refuse("shift count with dimension")
            if b.v is None:
                raise Abstain("shift count unknown")
            if b.v.denominator != 1:
                raise MustError("non-integer shift")
            if abs(b.v) >= 1 << 31:
                raise MustError("documented limit")
            if abs(b.v) > 4096:
                raise Abstain("too large")
            f = Fraction(2) ** int(b.v if op == "<<" else -b.v)
            return DV(a.d, None if a.v is None else a.v * f)
        if op in ("and", "or", "xor"):
            if a.d or b.d:
                raise Refuse("bit operator on dimensioned value")
            if a.v is None or b.v is None:
                st["soft"] = True
                return DV({}, None)
            if a.v.denominator != 1 or b.v.denominator != 1:
                raise MustError("bit operator on non-integer")
            x, y = a.v.numerator, b.v.numerator
            return DV({}, Fraction(x & y if op == "and" else (x | y if op == "or" else x ^ y)))
        raise Abstain("operator " + op)
    if k == "call":
        f, args = e[1], e[2]
        vals = [dims_eval(a, reg, st) for a in args]
        st["ops"].add("fn:" + f)
        arity = 2 if f in R.FUNCS2 else 1
        if len(vals) != arity:
            raise MustError("argument count")
        a = vals[0]
        if f == "sqrt":
            if a.v is None:
                st["soft"] = True
            elif a.v < 0:
                raise MustError("root of negative")
            for p in a.d.values():
                if p % 2:
                    raise Refuse("sqrt must be exact in every base unit")
            return DV({kk: p // 2 for kk, p in a.d.items()}, None)
        if f in ("sin", "cos", "tan"):
            if a.d and dims_key(a.d) != dims_key(RAD):
                raise Refuse("trig of non-angle")
            return DV({}, None)
        if f in ("asin", "acos", "atan"):
            if a.d:
                raise Refuse("inverse trig of dimensioned value")
            return DV(dict(RAD), None)
        if f == "atan2":
            if dims_key(a.d) != dims_key(vals[1].d):
                raise Refuse("atan2 of different dimensionalities")
            return DV(dict(RAD), None)
        if f == "hypot":
            if dims_key(a.d) != dims_key(vals[1].d):
                raise Refuse("hypot of different dimensionalities")
            return DV(a.d, None)
        if f == "log":
            if vals[1].d:
                raise Refuse("log base with dimension")
            if a.d:
                raise Abstain("log of dimensioned value is unspecified")
            return DV({}, None)
        # exp ln log2 log10 and the hyperbolic family: specified here only for dimensionless arguments
        if a.d:
            raise Abstain("%s of dimensioned value is unspecified" % f)
        return DV({}, None)
    raise Abstain("node " + k)


# ------------------------------------------------------------------ generation

class Gen:
    def __init__(self, rng, reg):
        self.rng = rng
        self.reg = reg
        self.classes = {k: [n for n in v if render_name(n) and n not in KEYWORDS]
                        for k, v in reg.dim_classes().items()}
        self.classes = {k: v for k, v in self.classes.items() if v}
        self.keys = sorted(self.classes)
        self.big = [k for k in self.keys if len(self.classes[k]) >= 3]
        self.prefixes = [p for p, _ in reg.prefixes if p.isalpha()]
        self.allnames = [n for k in self.keys for n in self.classes[k]]
        self.cursor = 0

    def next_name(self):
        """round-robin over the whole database so every unit is used as a leaf"""
        n = self.allnames[self.cursor % len(self.allnames)]
        self.cursor += 1
        return n

    def unit_leaf(self, cls=None):
        rng = self.rng
        if cls is not None and cls in self.classes:
            n = rng.choice(self.classes[cls])
        elif rng.random() < 0.5:
            n = self.next_name()
        else:
            n = rng.choice(self.classes[rng.choice(self.keys)])
        name = n
        if n.isalpha() and rng.random() < 0.25:
            name = rng.choice(self.prefixes) + name
        if name.isalpha() and rng.random() < 0.15:
            name = name + "s"
        s = render_name(name)
        if s is None:
            s = render_name(n)
        r = rng.random()
        if r < 0.3:
            s = "%s %s" % (self.coeff(), s)
        if rng.random() < 0.25:
            s = "%s^%d" % (s if " " not in s else "(" + s + ")", rng.choice([-4, -3, -2, -1, 0, 2, 3, 4]))
        return s

    def coeff(self):
        rng = self.rng
        return rng.choice(["2", "3", "0.5", "1|3", "7", "0", "1.25", "12", "-2"])

    def leaf(self, cls=None):
        rng = self.rng
        r = rng.random()
        if cls == ():
            return self.coeff() if r < 0.7 else self.unit_leaf(())
        if cls is not None:
            return self.unit_leaf(cls)
        if r < 0.12:
            return self.coeff()
        if r < 0.2:
            return "'%s'" % rng.choice(["foo", "bar", "core", "widget thing"])
        return self.unit_leaf()

    def expr(self, depth, cls=None):
        rng = self.rng
        if depth == 0 or rng.random() < 0.2:
            return self.leaf(cls)
        r = rng.random()
        if r < 0.22:
            op = rng.choice(["+", "-", "mod"])
            k = cls if cls is not None else (rng.choice(self.big) if rng.random() < 0.8 else None)
            a = self.expr(depth - 1, k)
            b = self.expr(depth - 1, k if rng.random() < 0.8 else None)
            return "(%s %s %s)" % (a, op, b)
        if r < 0.5:
            op = rng.choice(["*", "/", " ", "|"])
            a, b = self.expr(depth - 1), self.expr(depth - 1)
            if op == "|":
                return "(%s)|(%s)" % (a, b)
            if op == " ":
                return "(%s) (%s)" % (a, b)
            return "(%s %s %s)" % (a, op, b)
        if r < 0.68:
            a = self.expr(depth - 1)
            e = rng.choice(["0", "1", "2", "3", "-1", "-2", "(1/2)", "(1/3)", "(1/4)", "0.5", "(2/3)", "1.5",
                            "(3 - 3)", "(2 m / m)", "(1 m)", "(1/0)"])
            return "(%s)^%s" % (a, e)
        if r < 0.74:
            op = rng.choice(["<<", ">>"])
            return "(%s %s %s)" % (self.expr(depth - 1), op, rng.choice(["1", "3", "0", "-2", "0.5", "(1 s)"]))
        if r < 0.8:
            op = rng.choice(["and", "or", "xor"])
            a = self.expr(depth - 1, () if rng.random() < 0.7 else None)
            b = rng.choice(["3", "12", "0xff", "1.5", "(2 m)"])
            return "(%s %s %s)" % (a, op, b)
        # functions
        f = rng.choice(["sqrt", "sqrt", "sin", "cos", "tan", "asin", "acos", "atan", "atan2", "hypot", "log",
                        "exp", "ln", "log2", "log10", "sinh", "cosh", "tanh", "asinh", "acosh", "atanh"])
        if f in ("atan2", "hypot"):
            k = rng.choice(self.big) if rng.random() < 0.8 else None
            return "%s(%s, %s)" % (f, self.expr(depth - 1, k), self.expr(depth - 1, k if rng.random() < 0.8 else None))
        if f == "log":
            return "log(%s, %s)" % (self.expr(depth - 1, ()), rng.choice(["2", "10", "(3 m)", "(2 'foo')"]))
        if f == "sqrt":
            a = self.expr(depth - 1)
            if rng.random() < 0.5:
                a = "(%s)^2" % a
            return "sqrt(%s)" % a
        if f in ("sin", "cos", "tan"):
            r2 = rng.random()
            if r2 < 0.4:
                a = self.expr(depth - 1, (("radian", 1),))
            elif r2 < 0.7:
                a = self.expr(depth - 1, ())
            else:
                a = self.expr(depth - 1)
            return "%s(%s)" % (f, a)
        a = self.expr(depth - 1, () if rng.random() < 0.7 else None)
        return "%s(%s)" % (f, a)


def scan_zero_exponents(rep):
    """any zero exponent anywhere in a reply's dimension maps"""
    bad = []

    def walk(x, path):
        if isinstance(x, dict):
            for k, v in x.items():
                if k in ("u", "raw_unit", "raw_dimensions") and isinstance(v, dict):
                    for b, p in v.items():
                        if p == 0:
                            bad.append(path + "." + k + ":" + b)
                else:
                    walk(v, path + "." + k)
        elif isinstance(x, list):
            for i, v in enumerate(x):
                walk(v, path + "[%d]" % i)
    walk(rep, "")
    return bad


def _norm(m):
    m = re.sub(r"<[^>]*>", "<..>", m or "")
    m = re.sub(r":.*$", "", m)
    return re.sub(r"\d+", "N", m)[:70]


def work(idx, _chunk, seed, n):
    probe = worker_probe()
    reg = get_reg(probe)
    part = Part()
    rng = random.Random((seed << 11) ^ (idx * 104729 + 1))
    gen = Gen(rng, reg)
    gen.cursor = idx * (len(gen.allnames) // max(1, nproc()))
    for _ in range(n):
        depth = rng.choice([1, 2, 2, 3, 3, 4])
        text = gen.expr(depth)
        if len(text) > 1500:
            continue
        try:
            ast = R.parse(text)
        except (R.SyntaxErr, R.OutOfScope):
            part.count("generator_syntax_skip")
            continue
        if ast[0] in ("unit", "quote"):
            continue
        st = {"soft": False, "ops": set()}
        try:
            ref = ("dims", dims_eval(ast, reg, st))
        except Refuse as e:
            ref = ("refuse", str(e))
        except MustError as e:
            ref = ("error", str(e))
        except (Abstain, R.OutOfScope, R.Undefined) as e:
            part.count("reference_abstains")
            continue
        part.evaluations += 1
        r = probe.eval(text, timeout=30, spans=False, json=False)
        if "timeout" in r or "died" in r:
            part.inconclusive_event("no reply", {"query": text[:300]})
            continue
        if r.get("panics"):
            p = r["panics"][0]
            part.violation(panic_sig(p), {"query": text, "panic": p, "reference": str(ref[0])}, "panic")
            continue
        rep = r.get("r") or {}
        kind = rep.get("kind", "")
        wit = {"query": text[:600], "reply": (r.get("text") or "")[:300], "reference": ref[0]}
        zeros = scan_zero_exponents(rep)
        if zeros:
            part.violation({"kind": "zero_exponent_in_reply"}, dict(wit, where=zeros[:4]),
                           "a base unit is carried with exponent zero")
            continue
        is_num = kind in ("number", "duration")
        for o in st["ops"]:
            part.count("op:" + o)
        if ref[0] in ("refuse", "error"):
            part.count("expect_" + ref[0])
            if is_num:
                part.violation({"kind": "number_where_algebra_refuses" if ref[0] == "refuse" else "number_where_undefined",
                                "why": ref[1]}, wit, "a number was returned where the algebra demands an error")
            else:
                part.count("refused_ok")
                part.seen(ref[0] + "|" + ref[1] + "|" + ",".join(sorted(st["ops"])))
            continue
        dv = ref[1]
        if not is_num:
            if kind.startswith("err"):
                if st["soft"]:
                    part.count("error_admissible(value unknown)")
                else:
                    part.violation({"kind": "unexpected_refusal", "message": _norm(rep.get("message") or kind)}, wit,
                                   "an error was returned where the algebra yields a number")
            else:
                part.count("other_reply:" + kind)
            continue
        raw = rep["value"]["raw"] if kind == "number" else rep["raw"]["raw"]
        got = raw["u"]
        if dims_key(got) != dims_key(dv.d):
            part.violation({"kind": "wrong_dimensionality", "ops": sorted(st["ops"])[:6]},
                           dict(wit, expected=dv.d, got=got), "dimensionality differs from the algebra")
            continue
        part.count("dims_ok")
        part.seen("ok|" + ",".join(sorted(st["ops"])) + "|" + str(dims_key(dv.d)))
        part.sample({"query": text[:160], "dims": got})
    part.counters["leaf_cursor"] = gen.cursor - idx * (len(gen.allnames) // max(1, nproc()))
    return part.export()


def run(tier, seed):
    run = Run("C02", tier, seed, "exploration", floor=300)
    run.rule = ("random expression trees (depth <= 4) over + - * / | juxtaposition ^ mod << >> and or xor and all 20 "
                "functions, leaves = database units (round-robin over every name, random prefix/plural, coefficients, "
                "powers -4..4 incl. 0), quoted ad-hoc base units, numbers; non-trivial = distinct (verdict kind, operator "
                "set, resulting dimensionality) combination judged against the exponent-vector algebra")
    run.assumptions = ["exp/ln/log*/hyperbolic functions and log() of a dimensioned argument are unspecified by the "
                       "statement: the reference abstains there",
                       "where a value that gates an error is a machine float the reference accepts either outcome",
                       "temperature-scale suffixes are C10's business"]
    n = 60000 if tier == "quick" else 6000000
    per = nproc()
    for res in shard_map(work, [None] * per, (seed, n // per + 1)):
        run.merge(res)
    run.extra_cov["unit_leaves_round_robin"] = run.counters.pop("leaf_cursor", 0)
    return run.finish()


if __name__ == "__main__":
    from lib.common import tier_seed
    a = tier_seed()
    sys.exit(run(a.tier, a.seed))
