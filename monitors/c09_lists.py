"""C09 — unit lists and duration breakdowns decompose without loss.

Monitor over recorded replies: parts are read from the exact raw values of the reply, unit
values from the dumped database, and the four laws (exact sum, integral non-final parts,
common sign, bounded remainder) are recomputed in exact arithmetic."""
import random
import sys
from fractions import Fraction

from lib import refexpr as R
from lib import parts as P
from lib.common import Part, Run, panic_sig
from lib.probe import shard_map, worker_probe, nproc
from lib.registry import Registry, dims_key, render_name, KEYWORDS

_REG = None
DURATION_UNITS = ["year", "week", "day", "hour", "minute", "second"]


SPELLED_FAMILIES = [["ks", "s", "ms", "us", "ns", "ds", "min", "hour"], ["Gm", "Mm", "km", "m", "cm", "mm", "um", "nm", "au", "dm"],
                    ["Mg", "kg", "g", "mg", "ug"], ["GB", "MB", "kB", "byte", "bit"], ["kW", "W", "mW", "uW"], ["kJ", "J", "mJ"],
                    ["kilometers", "meters", "feet", "inches"], ["hours", "minutes", "seconds", "ms"]]


def get_reg(probe):
    global _REG
    if _REG is None:
        d = probe.request({"op": "dump", "ctx": probe.ctx("bundled")}, timeout=120)
        _REG = Registry(d["dump"])
    return _REG


def lit(fr):
    if fr.denominator == 1:
        return "(%d)" % fr.numerator if fr >= 0 else "(-%d)" % -fr.numerator
    if fr < 0:
        return "(-%d/%d)" % (-fr.numerator, fr.denominator)
    return "(%d/%d)" % (fr.numerator, fr.denominator)


def rand_value(rng, uvals):
    """value in base units, chosen to stress the decomposition"""
    r = rng.random()
    if r < 0.05:
        return Fraction(0)
    if r < 0.25:
        # exact combination of the list's units
        v = sum((Fraction(rng.randrange(0, 50)) * u for u in uvals), Fraction(0))
    elif r < 0.40:
        # one "ulp" below / above an exact multiple
        v = Fraction(rng.randrange(1, 1000)) * rng.choice(uvals)
        eps = min(abs(u) for u in uvals) / rng.choice([3, 10 ** 6, 10 ** 30])
        v += rng.choice([-1, 1]) * eps
    elif r < 0.55:
        v = Fraction(rng.getrandbits(rng.choice([8, 64, 400])), rng.getrandbits(rng.choice([1, 8, 64, 400])) + 1)
    elif r < 0.7:
        v = rng.choice(uvals) * Fraction(rng.randrange(1, 10 ** 6), rng.randrange(1, 10 ** 6))
    elif r < 0.8:
        v = min(abs(u) for u in uvals) / Fraction(10) ** rng.randrange(1, 40)       # tiny
    elif r < 0.9:
        v = max(abs(u) for u in uvals) * Fraction(10) ** rng.randrange(1, 40) + Fraction(1, 7)   # huge
    else:
        v = Fraction(rng.randrange(-10 ** 9, 10 ** 9), rng.randrange(1, 10 ** 4))
    if rng.random() < 0.35:
        v = -v
    return v


def check_laws(part, v, names, uvals, parts, wit, what):
    """the four laws; returns True when all hold"""
    total = sum((p * u for p, u in zip(parts, uvals)), Fraction(0))
    if total != v:
        part.violation({"kind": "sum_differs", "what": what}, dict(wit, sum=str(total), value=str(v)),
                       "sum(part_i * u_i) != v")
        return False
    rem = v
    for i, (p, u) in enumerate(zip(parts, uvals)):
        last = i == len(parts) - 1
        if not last and p.denominator != 1:
            part.violation({"kind": "non_final_part_not_integer", "what": what}, dict(wit, index=i, part=str(p)),
                           "a part other than the last is not an integer")
            return False
        if p != 0 and v != 0 and (p < 0) != (v < 0):
            part.violation({"kind": "part_sign_differs", "what": what}, dict(wit, index=i, part=str(p)),
                           "a part has the opposite sign of the value")
            return False
        rem = rem - p * u
        if not last and abs(rem) >= abs(u):
            part.violation({"kind": "remainder_not_smaller_than_unit", "what": what},
                           dict(wit, index=i, remainder=str(rem), unit=str(u)),
                           "what remains after a step is not smaller than the unit just used")
            return False
    return True


def raw_part(np_, name=None):
    raw = np_.get("raw")
    if raw is None or raw.get("f") or "n" not in raw:
        return None
    return Fraction(int(raw["n"]), int(raw["d"]))


def work(idx, _chunk, seed, n_lists, n_durations):
    probe = worker_probe()
    reg = get_reg(probe)
    part = Part()
    rng = random.Random((seed << 12) ^ (idx * 7919 + 3))
    classes = {}
    for k, names in reg.dim_classes().items():
        good = []
        for n in names:
            v = reg.lookup_exact(n)
            if v.f or v.v <= 0:
                continue
            rn = render_name(n)
            if rn is None or n in KEYWORDS:
                continue
            good.append(n)
        if len(good) >= 2:
            classes[k] = good
    keys = sorted(classes)
    for _ in range(n_lists):
        k = rng.choice(keys)
        names = classes[k]
        ln = rng.randrange(2, 7)
        chosen = [rng.choice(names) for _ in range(ln)]
        order = rng.choice(["desc", "desc", "asc", "random", "repeat"])
        val = lambda n: reg.lookup_exact(n).v
        if order == "desc":
            chosen.sort(key=val, reverse=True)
        elif order == "asc":
            chosen.sort(key=val)
        elif order == "repeat":
            chosen[rng.randrange(ln)] = chosen[0]
        uvals = [val(n) for n in chosen]
        v = rand_value(rng, uvals)
        src_unit = rng.choice(names)
        coeff = v / val(src_unit)
        mismatch = rng.random() < 0.12
        wrong_member = None
        if mismatch:
            ok = [kk for kk in keys if kk != k]
            other = rng.choice(ok)
            if rng.random() < 0.5:
                wrong_member = rng.randrange(ln)
                chosen = list(chosen)
                chosen[wrong_member] = rng.choice(classes[other])
            else:
                src_unit = rng.choice(classes[other])
        sep = rng.choice([";", ",", "; ", ", "])
        query = "%s %s -> %s" % (lit(coeff), render_name(src_unit), sep.join(render_name(n) for n in chosen))
        part.evaluations += 1
        r = probe.eval(query, timeout=30, spans=False, json=False)
        if "timeout" in r or "died" in r:
            part.inconclusive_event("no reply", {"query": query[:300]})
            continue
        if r.get("panics"):
            p = r["panics"][0]
            part.violation(panic_sig(p), {"query": query, "panic": p}, "panic in a unit-list conversion")
            continue
        rep = r.get("r") or {}
        kind = rep.get("kind")
        wit = {"query": query[:500], "reply": (r.get("text") or "")[:300]}
        if mismatch:
            part.count("expect_refusal")
            if kind in ("unitlist", "number", "conversion", "duration"):
                part.violation({"kind": "number_for_nonconformable_list",
                                "which": "member" if wrong_member is not None else "value"}, wit,
                               "a breakdown was returned for a non-conformable list or value")
            else:
                part.count("refused_ok")
                part.seen("refuse|%s|%s" % (k, "member" if wrong_member is not None else "value"))
            continue
        if kind != "unitlist":
            part.violation({"kind": "list_not_decomposed", "got": kind}, wit, "conformable unit list not decomposed")
            continue
        plist = [raw_part(x) for x in rep["list"]]
        if any(p is None for p in plist) or len(plist) != len(chosen):
            part.violation({"kind": "list_reply_malformed"}, wit, "")
            continue
        if check_laws(part, v, chosen, uvals, plist, wit, "unitlist"):
            part.count("list_ok")
            part.count("order:" + order)
            cls = "zero" if v == 0 else ("neg" if v < 0 else "pos")
            part.seen("list|%s|%s|%d|%s" % (k, order, ln, cls) + "|" + query)
            part.sample({"query": query[:200], "parts": [str(p)[:40] for p in plist]})
    # lists written in prefixed spellings (ms;us, km;m), with a float-valued or a negative-valued database unit
    for _ in range(max(1, n_lists // 8)):
        r0 = rng.random()
        if r0 < 0.7:
            fam = rng.choice(SPELLED_FAMILIES)
            members = rng.sample(fam, rng.randrange(2, min(5, len(fam)) + 1))
            vals = {}
            for n in members:
                lv, _ = reg.lookup(n)
                if lv is None or lv.f or lv.v <= 0:
                    break
                vals[n] = lv.v
            if len(vals) != len(members):
                part.count("spelled_list_unresolved")
                continue
            members.sort(key=lambda n: vals[n], reverse=True)
            uvals = [vals[n] for n in members]
            v = abs(rand_value(rng, uvals)) or uvals[0]
            src = members[rng.randrange(len(members))]
            query = "%s %s -> %s" % (lit(v / vals[src]), src, ";".join(members))
            part.evaluations += 1
            r = probe.eval(query, timeout=30, spans=False, json=False)
            if "timeout" in r or "died" in r:
                part.inconclusive_event("no reply", {"query": query[:300]})
                continue
            if r.get("panics"):
                part.violation(panic_sig(r["panics"][0]), {"query": query, "panic": r["panics"][0]}, "panic in a unit-list conversion")
                continue
            rep = r.get("r") or {}
            wit = {"query": query[:500], "reply": (r.get("text") or "")[:300]}
            if rep.get("kind") != "unitlist":
                part.violation({"kind": "list_not_decomposed", "got": rep.get("kind"), "spelling": "prefixed"}, wit, "")
                continue
            plist = [raw_part(x) for x in rep["list"]]
            if any(p_ is None for p_ in plist) or len(plist) != len(members):
                part.violation({"kind": "list_reply_malformed"}, wit, "")
                continue
            ok = check_laws(part, v, members, uvals, plist, wit, "unitlist-prefixed")
            # what is printed for each part (numeral x unit name, read the way rink reads names) is that part
            for e, p_, n, uv in zip(rep["list"], plist, members, uvals):
                try:
                    problems = P.check_parts(e, reg, quantity=p_ * uv, qdims=reg.lookup(n)[0].d, list_entry=True)
                except (P.Unjudgeable, R.OutOfScope):
                    # the printed unit name is not one rink reads (`megakm`, `kiloteram`)
                    ok = False
                    part.violation({"kind": "list_unit_name_unreadable", "how": "SI prefix glued onto the list's spelling"},
                                   dict(wit, shown=e.get("unit"), member=n),
                                   "a list part is shown under a unit name that rink itself cannot read")
                    continue
                for kind_, detail in problems:
                    ok = False
                    part.violation({"kind": "list_part_" + kind_}, dict(wit, shown=e.get("unit"), member=n, detail=detail),
                                   "a list part is shown as another quantity than part x unit")
            if ok:
                part.count("prefixed_list_ok")
                part.seen("plist|" + ";".join(members))
        elif r0 < 0.85:
            # a float-valued unit in the list: parts still whole (all but the last) and adding up, to float precision
            total = rng.choice([1, 2, 3, 5, 7, 12, 0.5, 100])
            query = "%s -> semitone;percent" % total if rng.random() < 0.7 else "%s -> octave;semitone;percent" % total
            names_f = query.split("-> ")[1].split(";")
            part.evaluations += 1
            r = probe.eval(query, timeout=30, spans=False, json=False)
            rep = r.get("r") or {}
            if r.get("panics"):
                part.violation(panic_sig(r["panics"][0]), {"query": query, "panic": r["panics"][0]}, "panic in a unit-list conversion")
                continue
            if rep.get("kind") != "unitlist":
                part.count("float_list_not_decomposed:%s" % rep.get("kind"))
                continue
            try:
                fparts = [float(x["raw"]["fv"]) if x["raw"].get("f") else float(Fraction(int(x["raw"]["n"]), int(x["raw"]["d"]))) for x in rep["list"]]
                fvals = []
                for n in names_f:
                    lv, _ = reg.lookup(n)
                    fvals.append(float(lv.v))
            except (KeyError, TypeError, ValueError, AttributeError):
                part.count("float_list_unreadable")
                continue
            wit = {"query": query, "reply": (r.get("text") or "")[:200]}
            ssum = sum(a * b for a, b in zip(fparts, fvals))
            if abs(ssum - total) > 1e-9 * max(1, abs(total)):
                part.violation({"kind": "sum_differs", "what": "unitlist-float"}, dict(wit, sum=ssum), "parts of a float-valued list do not add up")
            elif any(abs(x - round(x)) > 1e-9 for x in fparts[:-1]):
                part.violation({"kind": "non_final_part_not_integer", "what": "unitlist-float"}, dict(wit, parts=fparts), "")
            else:
                part.count("float_list_ok")
                part.seen("flist|" + query)
        else:
            # a negative-valued database unit: the parts cannot all have the value's sign, so the list has to be refused
            query = rng.choice(["%d K -> delisle_absolute;K", "%d -> g00;percent", "%d -> g000;g00;percent", "%d K -> K;delisle_absolute"]) % rng.randrange(1, 500)
            part.evaluations += 1
            r = probe.eval(query, timeout=30, spans=False, json=False)
            rep = r.get("r") or {}
            if r.get("panics"):
                part.violation(panic_sig(r["panics"][0]), {"query": query, "panic": r["panics"][0]}, "panic in a unit-list conversion")
            elif rep.get("kind") == "unitlist":
                ps = [raw_part(x) for x in rep["list"]]
                if any(p_ is not None and p_ < 0 for p_ in ps):
                    part.violation({"kind": "part_sign_differs", "what": "unitlist-negative-unit"},
                                   {"query": query, "reply": (r.get("text") or "")[:200]}, "a part has the opposite sign of the value")
                else:
                    part.count("negative_unit_list_parts_share_sign")
            else:
                part.count("negative_unit_list_refused")
                part.seen("neglist|" + query.split("->")[1])
    # durations: automatic year/week/day/hour/minute/second breakdown of time results
    duvals = [reg.lookup_exact(n).v for n in DURATION_UNITS]
    time_units = classes.get((("s", 1),), ["second"])
    for _ in range(n_durations):
        v = rand_value(rng, duvals)
        if rng.random() < 0.3:
            v = Fraction(rng.randrange(-10 ** 10, 10 ** 10), 10 ** rng.randrange(0, 10))   # sub-second decimals
        u = rng.choice(time_units)
        coeff = v / reg.lookup_exact(u).v
        query = "%s %s" % (lit(coeff), render_name(u))
        part.evaluations += 1
        r = probe.eval(query, timeout=30, spans=False, json=False)
        if "timeout" in r or "died" in r:
            part.inconclusive_event("no reply", {"query": query[:300]})
            continue
        if r.get("panics"):
            p = r["panics"][0]
            part.violation(panic_sig(p), {"query": query, "panic": p}, "panic in a duration breakdown")
            continue
        rep = r.get("r") or {}
        wit = {"query": query[:500], "reply": (r.get("text") or "")[:300]}
        if rep.get("kind") != "duration":
            part.violation({"kind": "time_value_without_breakdown", "got": rep.get("kind")}, wit, "")
            continue
        plist = [raw_part(rep[f]) for f in ("years", "weeks", "days", "hours", "minutes", "seconds")]
        if any(p is None for p in plist):
            part.violation({"kind": "duration_reply_malformed"}, wit, "")
            continue
        rawv = raw_part(rep["raw"])
        if rawv != v:
            part.count("duration_raw_differs(C01 territory)")
            continue
        if check_laws(part, v, DURATION_UNITS, duvals, plist, wit, "duration"):
            part.count("duration_ok")
            cls = "zero" if v == 0 else ("neg" if v < 0 else "pos")
            sub = "subsecond" if v.denominator != 1 else "whole"
            part.seen("dur|%s|%s|" % (cls, sub) + query)
    return part.export()


def run(tier, seed):
    run = Run("C09", tier, seed, "exploration", floor=1000)
    run.rule = ("`value -> u1;...;un` for ordered lists of 2..6 conformable database units from every dimensionality "
                "class with at least two units (descending, ascending, repeated, random order; ; and , separators) and "
                "values 0/tiny/huge/random/exact multiples/just below multiples in both signs; time values through the "
                "automatic breakdown; non-conformable members/values must be refused; lists written in prefixed / plural spellings "
                "(ms;us, km;m) whose printed parts are read back, lists with a float-valued unit (semitone) judged to 1e-9, lists "
                "with a negative-valued unit (must be refused or keep the sign law); non-trivial = distinct query "
                "whose parts were re-added and checked against the four laws")
    run.assumptions = ["parts are read from the reply's exact raw values; printed per-entry numerals are C06's business",
                       "the random lists use positive exact-valued units; float-valued and negative-valued units have their own cases"]
    n_lists, n_dur = (60000, 30000) if tier == "quick" else (1500000, 600000)
    per = nproc()
    for res in shard_map(work, [None] * per, (seed, n_lists // per + 1, n_dur // per + 1)):
        run.merge(res)
    return run.finish()


if __name__ == "__main__":
    from lib.common import tier_seed
    a = tier_seed()
    sys.exit(run(a.tier, a.seed))
