"""C15 — queries are pure; only `ans` carries state between them.

History monitor: query histories run on one long-lived context; every reply is compared with
the reply a fresh context gives for the same previous answer (sequential 10-line model of
`ans`), and the context's database/settings are compared before and after each history."""
import hashlib
import json
import random
import sys

from lib.common import Part, Run, panic_sig
from lib.probe import shard_map, worker_probe, nproc, HarnessError

PLAIN = ["2 + 3", "ans * 2", "_ + 1", "ANS^2", "3 m", "5 kg * 2", "ans + ans", "1/3", "12 ft^2", "2^70", "ans / 7",
         "10 km / 5 m", "1.5 * 4", "(ans)", "-ans", "3 m * ans", "ans m", "sqrt(16)", "sqrt(ans^2)", "7 mod 3",
         "1 << 10", "0x10 + ans", "100 percent", "ans % ", "3 newton meter", "1e30", "_ _", "ans - ans", "pi", "1 foot"]
TIME = ["2 hours", "90 minutes + 30 s", "ans s", "1 year", "3 s * 2"]
CONV = ["1/7 -> digits 30", "22/7 -> frac", "123456 m -> sci", "ans -> digits", "ans -> fraction", "ans -> engineering", "7 -> ratio", "ans -> ft", "3 m -> ft", "10 -> digits 3", "1/3 -> frac", "ans -> base 2", "ans -> m", "1 mile -> km",
        "ans -> sci", "100 degC -> degF", "2 km -> mi;ft", "10 km -> potato = 3 m", "ans -> kg", "ans -> eng",
        "5 kg water -> liter", "ans to m", "1 year -> days"]
DEFS = ["meter", "kg", "foot", "kilometer", "speed", "area", "gold", "c", "potato"]
CMDS = ["units for length", "units for ans", "factorize velocity", "factorize ans", "search foo", "search met",
        "units for energy", "factorize m^2"]
SUBST = ["water", "density of water", "mass of (2 liter water)", "gold", "ans water", "molar_mass of C2H6"]
DATES = ["#2020-01-01#", "#2020-01-01# + 3 days", "#2020-02-01# - #2020-01-01#", "#2020-01-01 12:00# -> +05:00",
         "#2020-01-01# + ans s", "#jan 1, 1970#"]
FAIL = ["1 m + 1 s", "foo", "1 /", "(", "1 mod 0", "ans +", "0^-1", ")", "1 -> 1 << 2", "3 m -> s", "2^(1 m)",
        "undefinedunit * ans", "sqrt(-1 m)", "ans -> nope", "units for nope", "#notadate#", "1 ->", "asin(2 m)",
        "1e", "0x", "'unterminated", "density of gold + 1", "1 m -> ft;s"]
NOWISH = ["now", "now - #2020-01-01#", "#12:00#"]
KINDS = {"plain": PLAIN, "time": TIME, "conv": CONV, "def": DEFS, "cmd": CMDS, "subst": SUBST, "date": DATES,
         "fail": FAIL, "now": NOWISH}
WEIGHTS = [("plain", 30), ("time", 5), ("conv", 14), ("def", 6), ("cmd", 6), ("subst", 6), ("date", 6), ("fail", 18), ("now", 3)]


def pick_kind(rng):
    t = rng.randrange(sum(w for _, w in WEIGHTS))
    for k, w in WEIGHTS:
        if t < w:
            return k
        t -= w
    return "plain"


def canon(x):
    return json.dumps(x, sort_keys=True, ensure_ascii=False)


def event(r):
    """the part of a reply that must be a function of (query, previous answer)"""
    return {"r": r.get("r"), "text": r.get("text"), "spans": r.get("spans"), "json": r.get("json"),
            "json_error": r.get("json_error"),
            "panics": [(p.get("phase"), p.get("msg")) for p in (r.get("panics") or [])]}


def state_of(probe, cid):
    d = probe.request({"op": "dump", "ctx": cid}, timeout=120)
    if "dump" not in d:
        raise HarnessError("dump failed: %r" % (d,))
    dump = d["dump"]
    flags = {"use_humanize": dump.pop("use_humanize"), "save_previous_result": dump.pop("save_previous_result"),
             "temporaries_empty": dump.pop("temporaries_empty")}
    return hashlib.blake2b(canon(dump).encode(), digest_size=16).hexdigest(), flags


def work(idx, _chunk, seed, n_hist, check_state_every):
    probe = worker_probe()
    part = Part()
    rng = random.Random((seed << 10) ^ (idx * 9176 + 13))
    main = {}       # long-lived contexts per (kind, save flag)
    base_state = {}
    for h in range(n_hist):
        kindctx = "currency" if rng.random() < 0.25 else "bundled"
        save = rng.random() < 0.75
        key = (kindctx, save)
        if not probe.alive():
            main.clear()
        if key not in main:
            r = probe.request({"op": "newctx", "kind": kindctx, "save_prev": save}, timeout=120)
            if "ctx" not in r:
                raise HarnessError("newctx failed: %r" % (r,))
            main[key] = {"ctx": r["ctx"], "prev": None}
            base_state[key] = state_of(probe, r["ctx"])
        m = main[key]
        cid = m["ctx"]
        # the reference side: a fresh context for this history
        r = probe.request({"op": "newctx", "kind": kindctx, "save_prev": save}, timeout=120)
        if "ctx" not in r:
            raise HarnessError("newctx failed: %r" % (r,))
        ref = r["ctx"]
        length = rng.randrange(5, 61)
        prev_kind = None
        died = False
        for step in range(length):
            k = pick_kind(rng)
            q = rng.choice(KINDS[k])
            part.evaluations += 1
            model_prev = m["prev"]
            a = probe.request({"op": "eval", "ctx": cid, "q": q}, timeout=60)
            if "timeout" in a or "died" in a:
                part.inconclusive_event("probe lost during history (C04 owns hangs/aborts)", {"query": q})
                died = True
                break
            # same query, fresh context, same previous answer
            probe.request({"op": "setctx", "ctx": ref, "prev": model_prev})
            b = probe.request({"op": "eval", "ctx": ref, "q": q}, timeout=60)
            if "timeout" in b or "died" in b:
                part.inconclusive_event("probe lost during history (C04 owns hangs/aborts)", {"query": q})
                died = True
                break
            wit = {"history_index": h, "step": step, "query": q, "context": kindctx, "save_previous_result": save,
                   "previous_answer": model_prev}
            if k != "now" and canon(event(a)) != canon(event(b)):
                diff = [f for f in ("r", "text", "spans", "json", "panics") if canon(event(a)[f]) != canon(event(b)[f])]
                part.violation({"kind": "reply_depends_on_history", "query_kind": k, "fields": diff},
                               dict(wit, long_lived=event(a)["text"], fresh=event(b)["text"]),
                               "a reply differs from the reply a fresh context gives for the same previous answer")
            # the `ans` model
            rep = a.get("r") or {}
            kind = rep.get("kind")
            after = a.get("prev")
            if not save:
                want = [model_prev]
            elif k == "conv":
                # the statement is about the query, not about which reply variant it happens to produce
                want = [model_prev]
            elif kind == "number" and rep["value"]["raw"] is not None:
                want = [rep["value"]["raw"]]
            elif kind == "duration":
                want = [model_prev, rep["raw"]["raw"]]      # statement does not settle time results
            else:
                want = [model_prev]
            if not any(canon(after) == canon(w) for w in want):
                part.violation({"kind": "previous_result_wrong", "after_reply_kind": kind, "feature_on": save},
                               dict(wit, previous_result_after=after, model=want),
                               "`ans` changed (or failed to change) contrary to the model")
            else:
                part.count("ans_model_ok:" + str(kind))
            m["prev"] = after
            if prev_kind is not None and ("ans" in q or "_" in q.split() or "ANS" in q):
                part.seen("%s->%s" % (prev_kind, kind))
            prev_kind = kind
            part.count("query_kind:" + k)
        probe.request({"op": "dropctx", "ctx": ref})
        if died:
            main.clear()
            continue
        if h % check_state_every == 0:
            st = state_of(probe, cid)
            if st != base_state[key]:
                what = "database" if st[0] != base_state[key][0] else "settings"
                part.violation({"kind": "context_changed_by_queries", "what": what},
                               {"history_index": h, "context": kindctx, "before": base_state[key], "after": st},
                               "the database, settings or load-time temporaries differ after a history of queries")
            else:
                part.count("state_unchanged_after_history")
        part.count("histories")
        if h < 2:
            part.sample({"context": kindctx, "save_previous_result": save, "length": length, "last_query": q})
    return part.export()


def run(tier, seed):
    run = Run("C15", tier, seed, "exploration", floor=20)
    run.rule = ("histories of 5-60 queries (plain expressions, time results, conversions, definition lookups, commands, substances, "
                "dates, failing queries of every error family, uses of ans/ANS/_) on long-lived bundled and currency contexts "
                "with the feature on and off; each reply compared with a fresh context given the model's previous answer; "
                "non-trivial = distinct (reply kind before -> reply kind after) transitions observed on queries that use ans")
    run.assumptions = ["queries mentioning `now` or time-only literals are exempt from reply comparison (eval() refreshes the clock by design)",
                       "after a time result (Duration reply) the model accepts ans unchanged or set to the raw value",
                       "probe loss inside a history is inconclusive here; C04 owns crashes and hangs"]
    n = 800 if tier == "quick" else 60000
    per = nproc()
    for res in shard_map(work, [None] * per, (seed, n // per + 1, 2 if tier == "quick" else 5)):
        run.merge(res)
    return run.finish()


if __name__ == "__main__":
    from lib.common import tier_seed
    a = tier_seed()
    sys.exit(run(a.tier, a.seed))
