"""C05 — printed numerals denote the computed value.

Every numeral rink prints (directly through Numeric::to_string, and inside replies to
`x -> digits N base B` style queries) is re-read by an independent numeral reader and
compared with the exact rational it is supposed to denote."""
import random
import sys
from fractions import Fraction

from lib import numeral as NR
from lib.common import Part, Run, panic_sig
from lib.probe import shard_map, split, worker_probe, nproc

MODES = ["default", "fullint", {"digits": 0}, {"digits": 1}, {"digits": 2}, {"digits": 5},
         {"digits": 6}, {"digits": 7}, {"digits": 10}, {"digits": 30}, {"digits": 100},
         {"digits": 300}, {"digits": 1000}, "sci", "eng", "frac"]
QUICK_MODES = ["default", "fullint", {"digits": 0}, {"digits": 2}, {"digits": 7}, {"digits": 30},
               {"digits": 300}, "sci", "eng", "frac"]
PERIOD_DENOMS = [3, 7, 9, 11, 13, 17, 97, 101, 239, 3937, 4649, 9901, 4294967291, 4294967311,
                 9223372036854775783, 9223372036854775837, 18446744073709551557]


def mode_name(m):
    return m if isinstance(m, str) else "digits%d" % m["digits"]


def mode_query(m):
    if m == "default":
        return ""
    if m == "fullint":
        return "digits"
    if isinstance(m, dict):
        return "digits %d" % m["digits"]
    return m


def gen_cases(rng, n, bases, modes, bits_max):
    out = []
    for _ in range(n):
        b = rng.choice(bases)
        m = rng.choice(modes)
        fam = rng.randrange(6)
        if fam == 0:
            k, j = rng.randrange(0, 41), rng.randrange(0, 41)
            p = b ** k + rng.choice([-1, 0, 1])
            q = b ** j + rng.choice([-1, 0, 1])
        elif fam == 1:
            q = rng.choice(PERIOD_DENOMS + [b * b * 3, 7 * b, b ** 3 - 1, b ** 7 + 1])
            p = rng.randrange(0, q * b ** rng.randrange(0, 4) + 1)
        elif fam == 2:
            # around rink's 1e9 / 1e-9 notation switches and around powers of the base
            pivot = rng.choice([Fraction(10) ** 9, Fraction(1, 10 ** 9), Fraction(b) ** rng.randrange(-12, 13)])
            f = rng.choice([Fraction(1), Fraction(999, 1000), Fraction(1001, 1000),
                            1 + Fraction(1, 10 ** 12), 1 - Fraction(1, 10 ** 12)])
            v = pivot * f
            p, q = v.numerator, v.denominator
        elif fam == 3:
            nb = rng.choice([8, 64, 300, bits_max])
            p = rng.getrandbits(nb)
            q = rng.getrandbits(rng.choice([1, 8, 64, 300, bits_max])) + 1
        elif fam == 4:
            # terminating in base b: denominator a product of b's prime factors
            q = 1
            for f in _factors(b):
                q *= f ** rng.randrange(0, 12)
            p = rng.getrandbits(rng.choice([4, 40, 200]))
        else:
            p, q = rng.randrange(0, 200), rng.randrange(1, 200)
        if q <= 0:
            q = 1
        if rng.random() < 0.3:
            p = -p
        fr = Fraction(p, q)
        out.append((str(fr.numerator), str(fr.denominator), b, m))
    return out


def _factors(n):
    fs, d = [], 2
    while n > 1:
        if n % d == 0:
            fs.append(d)
            while n % d == 0:
                n //= d
        d += 1
    return fs


def check_numeral(part, p, q, base, mode, r):
    """r: reply of the numeral op"""
    v = Fraction(int(p), int(q))
    text = r["text"]
    rb = 10 if mode == "frac" else base
    name = mode_name(mode)
    wit = {"p": p, "q": q, "base": base, "mode": name, "text": text[:300], "is_exact": r["is_exact"]}
    key_shape = "exact" if r["is_exact"] else "approx"
    try:
        if r["is_exact"]:
            if not NR.exact_matches(text, rb, v):
                part.violation({"kind": "exact_numeral_wrong", "mode": _modeclass(mode)}, wit,
                               "numeral marked exact does not denote the value")
                return
            if not NR.period_consistent(text, rb):
                part.violation({"kind": "period_mismatch"}, wit, "stated period != bracket length")
                return
        else:
            if not NR.approx_matches(text, rb, v):
                part.violation({"kind": "approx_numeral_wrong", "mode": _modeclass(mode)}, wit,
                               "numeral marked approximate is not the value truncated toward "
                               "zero within one last-digit unit")
                return
    except NR.Unreadable as e:
        part.violation({"kind": "unreadable_numeral", "why": str(e)[:60]}, wit, "numeral cannot be read back")
        return
    except NR.TooBig:
        part.inconclusive_event("oracle size guard", wit)
        return
    # string_repr must agree with to_string
    se, sa = r.get("sr_exact"), r.get("sr_approx")
    if r["is_exact"]:
        if se != text or sa is not None:
            part.violation({"kind": "string_repr_inconsistent", "case": "exact"}, dict(wit, sr=[se, sa]), "")
            return
    else:
        if sa != text:
            part.violation({"kind": "string_repr_inconsistent", "case": "approx"}, dict(wit, sr=[se, sa]), "")
            return
        if se is not None:
            try:
                if not NR.exact_matches(se, 10, v):
                    part.violation({"kind": "fraction_companion_wrong"}, dict(wit, sr=[se, sa]), "")
                    return
            except NR.Unreadable as e:
                part.violation({"kind": "unreadable_numeral", "why": str(e)[:60]}, dict(wit, sr=[se, sa]), "")
                return
    part.count("numeral_ok:" + key_shape)
    part.count("mode:" + name)
    part.count("base:%d" % base)
    part.seen("%s/%s|%d|%s" % (p, q, base, name))
    if "[" in text:
        part.count("recurring_seen")
    if "e" in text and mode in ("sci", "eng", "default"):
        part.count("scientific_seen")
    part.sample({"p/q": ("%s/%s" % (p, q))[:80], "base": base, "mode": name, "text": text[:80],
                 "marked": key_shape})


def _modeclass(m):
    return m if isinstance(m, str) else "digitsN"


def check_reply(part, p, q, base, mode, query, r):
    """r: eval reply for `p/q -> <mode> base B`: the 'approx.' logic of single-number replies."""
    v = Fraction(int(p), int(q))
    wit = {"query": query[:300], "text": (r.get("text") or "")[:300]}
    if r.get("panics"):
        pn = r["panics"][0]
        part.violation(panic_sig(pn), dict(wit, panic=pn), "panic while printing a numeral")
        return
    rep = r.get("r") or {}
    if rep.get("kind") not in ("number", "conversion"):
        part.count("reply_other:" + str(rep.get("kind")))
        if rep.get("kind", "").startswith("err"):
            part.violation({"kind": "error_printing", "message": (rep.get("message") or "")[:60]}, wit,
                           "error instead of a printed number")
        return
    np_ = rep["value"]
    raw = np_["raw"]
    if raw is None or raw.get("f"):
        part.count("reply_float")
        return
    rv = Fraction(int(raw["n"]), int(raw["d"]))
    if rv != v:
        part.count("reply_value_differs(C01 territory)")
        return
    ex, ap = np_["exact"], np_["approx"]
    rb = 10 if mode == "frac" else base
    try:
        if ex is None and ap is None:
            part.violation({"kind": "no_numeral_in_reply"}, wit, "")
            return
        if ex is not None:
            exb = 10 if "/" in ex else rb
            if not NR.exact_matches(ex, exb, v):
                part.violation({"kind": "reply_exact_wrong", "mode": _modeclass(mode)}, dict(wit, exact=ex[:200]),
                               "exact numeral in reply does not denote the value")
                return
        if ap is not None:
            if not NR.approx_matches(ap, rb, v, strict=True):
                part.violation({"kind": "reply_approx_wrong", "mode": _modeclass(mode)}, dict(wit, approx=ap[:200]),
                               "numeral shown as approx. is not a proper truncation (or is in fact exact)")
                return
    except NR.Unreadable as e:
        part.violation({"kind": "unreadable_numeral", "why": str(e)[:60]}, wit, "")
        return
    except NR.TooBig:
        part.inconclusive_event("oracle size guard", wit)
        return
    text = r.get("text") or ""
    if ("approx. " in text) != (ap is not None):
        part.violation({"kind": "approx_marker_inconsistent"}, wit,
                       "'approx.' shown although no approximate numeral / missing although approximate")
        return
    part.count("reply_ok:" + ("approx" if ap is not None else "exact"))
    part.seen("R%s/%s|%d|%s" % (p, q, base, mode_name(mode)))


def work(idx, chunk, seed):
    probe = worker_probe()
    part = Part()
    for (p, q, base, mode, via) in chunk:
        part.evaluations += 1
        if via == "numeral":
            r = probe.request({"op": "numeral", "n": p, "d": q, "base": base, "digits": mode}, timeout=60)
            if "timeout" in r or "died" in r:
                part.inconclusive_event("probe no reply on numeral", {"p": p[:50], "q": q[:50], "base": base})
                continue
            if "panic" in r:
                part.violation(panic_sig(r["panic"]), {"p": p, "q": q, "base": base, "mode": mode_name(mode),
                                                      "panic": r["panic"]}, "panic in Numeric::to_string")
                continue
            check_numeral(part, p, q, base, mode, r)
        else:
            mq = mode_query(mode)
            bq = "" if base == 10 and mq else "base %d" % base
            if not mq and base == 10:
                query = "%s/%s" % (p, q)
            else:
                query = "%s/%s -> %s %s" % (p, q, mq, bq)
            query = query.replace("-", "-", 1)
            r = probe.eval(query, timeout=60)
            if "timeout" in r or "died" in r:
                part.inconclusive_event("probe no reply on query", {"query": query[:200]})
                continue
            check_reply(part, p, q, base, mode, query, r)
    return part.export()


def run(tier, seed):
    run = Run("C05", tier, seed, "exploration", floor=2000)
    run.rule = ("cases are (p/q, base 2..36, digits mode) from boundary families (b^k±1 / b^j±1, "
                "denominators with short/long/huge periods, values around the 1e9/1e-9 and b^k switches, "
                "terminating fractions, random rationals up to thousands of bits, small p,q exhaustively), "
                "both through Numeric::to_string/string_repr and through `p/q -> MODE base B` queries; "
                "non-trivial = distinct (p/q, base, mode) whose printed numeral was re-read and compared")
    run.assumptions = [
        "fraction-form numerals (frac mode, p/q companions) are decimal whatever base was requested",
        "in bases >= 15 'e' is both digit and exponent marker: a numeral is accepted if any reading fits",
        "digit counts up to 1000; Digits(n >= 2^31) is left to C04",
    ]
    rng = random.Random(seed)
    bases = list(range(2, 37))
    cases = []
    if tier == "quick":
        modes = QUICK_MODES
        n_rand = 14000
        small = 12
        small_bases = [2, 3, 7, 10, 12, 16, 36]
        bits = 2048
        small_modes = ["default", "fullint", {"digits": 5}, "sci", "eng", "frac"]
    else:
        modes = MODES
        n_rand = 400000
        small = 60
        small_bases = bases
        bits = 4096
        small_modes = ["default", "fullint", {"digits": 5}, {"digits": 30}, "sci", "eng", "frac"]
    for c in gen_cases(rng, n_rand, bases, modes, bits):
        cases.append(c + ("numeral",))
    n_small = 0
    for p in range(0, small + 1):
        for q in range(1, small + 1):
            fr = Fraction(p, q)
            if fr.numerator != p:
                continue      # reduced forms only
            for b in small_bases:
                for m in small_modes:
                    s = rng.random() < 0.5
                    cases.append((str(-p if s else p), str(q), b, m, "numeral"))
                    n_small += 1
    # query route: subset of the random cases + every small case in base 10 / 16 / 2
    qcases = []
    for c in gen_cases(rng, n_rand // 3, bases, modes, 512):
        qcases.append(c + ("query",))
    cases += qcases
    rng.shuffle(cases)
    for res in shard_map(work, split(cases, nproc() * 4), (seed,)):
        run.merge(res)
    run.extra_cov["small_exhaustive"] = {"p_q_max": small, "bases": len(small_bases),
                                         "modes": [mode_name(m) for m in small_modes], "cases": n_small}
    run.exhaustive = False
    return run.finish()


if __name__ == "__main__":
    from lib.common import tier_seed
    a = tier_seed()
    sys.exit(run(a.tier, a.seed))
