"""C10 — temperature scales are exact, mutually inverse affine maps.

Reference-model monitor: textbook affine formulas (written from the literature, not from
definitions.units) in exact arithmetic vs the real evaluator, for every spelling of every
scale, plus chains of conversions fed by the exact replies."""
import random
import sys
from fractions import Fraction as F

from lib.common import Part, Run, panic_sig
from lib.probe import shard_map, worker_probe, nproc

SPELLINGS = {
    "C": ["degC", "°C", "celsius", "℃"],
    "F": ["degF", "°F", "fahrenheit", "℉"],
    "Re": ["degRé", "°Ré", "degRe", "°Re", "réaumur", "reaumur"],
    "Ro": ["degRø", "°Rø", "degRo", "°Ro", "rømer", "romer"],
    "De": ["degDe", "°De", "delisle"],
    "N": ["degN", "°N", "degnewton"],
}
SCALES = list(SPELLINGS)

TO_K = {
    "C": lambda x: x + F(27315, 100),
    "F": lambda x: (x + F(45967, 100)) * F(5, 9),
    "Re": lambda x: x * F(5, 4) + F(27315, 100),
    "Ro": lambda x: (x - F(15, 2)) * F(40, 21) + F(27315, 100),
    "De": lambda x: F(37315, 100) - x * F(2, 3),
    "N": lambda x: x * F(100, 33) + F(27315, 100),
}
FROM_K = {
    "C": lambda k: k - F(27315, 100),
    "F": lambda k: k * F(9, 5) - F(45967, 100),
    "Re": lambda k: (k - F(27315, 100)) * F(4, 5),
    "Ro": lambda k: (k - F(27315, 100)) * F(21, 40) + F(15, 2),
    "De": lambda k: (F(37315, 100) - k) * F(3, 2),
    "N": lambda k: (k - F(27315, 100)) * F(33, 100),
}
KDIM = {"K": 1}


def lit(fr):
    if fr.denominator == 1:
        return "(%d)" % fr.numerator if fr >= 0 else "(-%d)" % -fr.numerator
    if fr < 0:
        return "(-%d/%d)" % (-fr.numerator, fr.denominator)
    return "(%d/%d)" % (fr.numerator, fr.denominator)


def rand_x(rng):
    r = rng.random()
    if r < 0.2:
        return rng.choice([F(0), F(1), F(-1), F(-27315, 100), F(-45967, 100), F(1, 3), F(100), F(212), F(32), F(-40),
                           F(15, 2), F(150), F(33), F(80), F(60)])
    if r < 0.35:
        return F(10) ** rng.randrange(-30, 31) * rng.choice([1, -1])
    if r < 0.55:
        return F(rng.randrange(-10 ** 60, 10 ** 60), 10 ** rng.randrange(0, 61))
    if r < 0.8:
        return F(rng.randrange(-10 ** 6, 10 ** 6), rng.randrange(1, 10 ** 4))
    return F(rng.getrandbits(rng.choice([16, 128, 1000])) - rng.getrandbits(64), rng.getrandbits(rng.choice([8, 64, 500])) + 1)


def get_exact(r, want_kind):
    rep = r.get("r") or {}
    if rep.get("kind") != want_kind:
        return None, rep
    raw = rep["value"]["raw"]
    if raw is None or raw.get("f") or "n" not in raw:
        return "float", rep
    return (F(int(raw["n"]), int(raw["d"])), raw["u"]), rep


def ask(part, probe, q):
    part.evaluations += 1
    r = probe.eval(q, timeout=30, spans=False, json=False)
    if "timeout" in r or "died" in r:
        part.inconclusive_event("no reply", {"query": q[:300]})
        return None
    if r.get("panics"):
        p = r["panics"][0]
        part.violation(panic_sig(p), {"query": q, "panic": p}, "panic in a temperature query")
        return None
    return r


def work(idx, _chunk, seed, n):
    probe = worker_probe()
    part = Part()
    rng = random.Random((seed << 8) ^ (idx * 2654435761 % (1 << 30)))
    # systematic part: every (from, to) pair x every spelling pair at least once
    pairs = [(a, b, sa, sb) for a in SCALES for b in SCALES for sa in SPELLINGS[a] for sb in SPELLINGS[b]]
    mine = pairs[idx::nproc()]
    jobs = [(a, b, sa, sb, rand_x(rng)) for (a, b, sa, sb) in mine]
    for _ in range(n):
        a, b = rng.choice(SCALES), rng.choice(SCALES)
        jobs.append((a, b, rng.choice(SPELLINGS[a]), rng.choice(SPELLINGS[b]), rand_x(rng)))
    for (a, b, sa, sb, x) in jobs:
        # 1. operator: x <scale> is the textbook absolute temperature
        q = "%s %s" % (lit(x), sa)
        r = ask(part, probe, q)
        if r is None:
            continue
        got, rep = get_exact(r, "number")
        wit = {"query": q, "reply": (r.get("text") or "")[:200]}
        k = TO_K[a](x)
        if got is None or got == "float":
            part.violation({"kind": "scale_operator_no_exact_number", "scale": a, "got": rep.get("kind")}, wit,
                           "x <scale> did not give an exact number")
            continue
        if got[0] != k or got[1] != KDIM:
            part.violation({"kind": "scale_operator_wrong", "scale": a}, dict(wit, expected_K=str(k), got=str(got[0]), dims=got[1]),
                           "x <scale> is not the textbook absolute temperature")
            continue
        part.count("operator_ok:" + a)
        # 2. conversion A -> B agrees with the textbook map; A -> A returns x
        q2 = "%s %s -> %s" % (lit(x), sa, sb)
        r = ask(part, probe, q2)
        if r is None:
            continue
        got, rep = get_exact(r, "conversion")
        wit = {"query": q2, "reply": (r.get("text") or "")[:200]}
        want = FROM_K[b](k)
        if got is None or got == "float":
            part.violation({"kind": "scale_conversion_no_exact_number", "from": a, "to": b, "got": rep.get("kind")}, wit, "")
            continue
        if got[0] != want:
            part.violation({"kind": "scale_conversion_wrong", "from": a, "to": b}, dict(wit, expected=str(want), got=str(got[0])),
                           "conversion between scales disagrees with the textbook formula")
            continue
        if a == b and got[0] != x:
            part.violation({"kind": "scale_roundtrip_not_identity", "scale": a}, wit, "")
            continue
        part.count("conversion_ok")
        if x.denominator != 1:
            part.seen("%s|%s|%s|%s" % (a, b, sa, sb))
        part.sample({"query": q2[:120], "x_in_target_scale": str(want)[:60]})
        # 3. chain: feed the exact reply through 2..6 further scales and back; no drift
        if rng.random() < 0.25:
            cur_scale, cur = b, got[0]
            hops = [rng.choice(SCALES) for _ in range(rng.randrange(1, 6))] + [a]
            okc = True
            for nxt in hops:
                qn = "%s %s -> %s" % (lit(cur), rng.choice(SPELLINGS[cur_scale]), rng.choice(SPELLINGS[nxt]))
                rr = ask(part, probe, qn)
                if rr is None:
                    okc = False
                    break
                g, _ = get_exact(rr, "conversion")
                if g is None or g == "float":
                    part.violation({"kind": "chain_step_failed"}, {"query": qn, "reply": (rr.get("text") or "")[:200]}, "")
                    okc = False
                    break
                cur_scale, cur = nxt, g[0]
            if okc:
                if cur != x:
                    part.violation({"kind": "chain_drift"}, {"start": str(x), "scale": a, "hops": hops, "end": str(cur)},
                                   "a chain of scale conversions does not return to the start")
                else:
                    part.count("chain_ok")
    # 4. refusals
    neg = []
    for s in SCALES:
        for sp in SPELLINGS[s]:
            neg.append(("dimensioned_operand", "3 m %s" % sp))
            neg.append(("dimensioned_operand", "(2 kg) %s" % sp))
            neg.append(("compound_target", "5 K -> %s m" % sp))
            neg.append(("compound_target", "5 K -> m %s" % sp))
            neg.append(("compound_target", "5 K -> %s^2" % sp))
            neg.append(("compound_target", "5 K -> 2 %s" % sp))
            neg.append(("compound_target", "5 K -> %s / s" % sp))
            neg.append(("compound_target", "5 K -> %s %s" % (sp, rng.choice(SPELLINGS[rng.choice(SCALES)]))))
            # a scale hidden deeper in the target: behind `name =`, in an exponent, in an `of` operand, after a comment / newline
            neg.append(("compound_target", "300 K -> %s = 1 %s" % (rng.choice(["kelvin", "x", "potato"]), sp)))
            neg.append(("compound_target", "300 K -> K^((1 %s)/(1 %s))" % (sp, sp)))
            neg.append(("compound_target", "1 kg/m^3 -> density of (water ((1 %s)/(274.15 K)))" % sp))
            neg.append(("compound_target", "5 K -> %s /**/ m" % sp))
            neg.append(("compound_target", "5 K -> %s /* c */ %s" % (sp, rng.choice(SPELLINGS[rng.choice(SCALES)]))))
            neg.append(("compound_target", "5 K -> %s\nm" % sp))
            neg.append(("compound_target", "5 K -> K, %s" % sp))
            neg.append(("nonconformable_source", "3 m -> %s" % sp))
    for why, q in neg[idx::nproc()]:
        r = ask(part, probe, q)
        if r is None:
            continue
        kind = (r.get("r") or {}).get("kind", "")
        if kind in ("number", "conversion", "duration", "unitlist"):
            shape = "scale_followed_by_tokens" if (why == "compound_target" and q.split("-> ")[1].split()[0] in
                                                   sum(SPELLINGS.values(), [])) else why
            if why == "compound_target" and "^" in q and q.split("-> ")[1].split("^")[0] in sum(SPELLINGS.values(), []):
                shape = "scale_followed_by_tokens"
            part.violation({"kind": "scale_accepted_where_refusal_required", "case": shape},
                           {"query": q, "reply": (r.get("text") or "")[:200]},
                           "scale operator accepted on a dimensioned operand / inside a compound target")
        else:
            part.count("refused_ok:" + why)
            part.seen("refuse|" + q)
    return part.export()


def run(tier, seed):
    run = Run("C10", tier, seed, "exploration", floor=300)
    run.rule = ("x in {0, +-1, absolute zero, 1/3, 10^+-30, 60-digit decimals, random rationals} x all 36 ordered scale pairs "
                "x every spelling pair (576 systematic) plus seeded random triples; operator value, conversion value, "
                "A->A identity, chains of 2..6 conversions fed by the exact replies, and refusal cases (dimensioned operands; a scale "
                "next to other factors, behind `name =`, inside an exponent or an `of` operand of a target, or followed by tokens after "
                "a comment / newline); non-trivial = "
                "distinct (from, to, spelling, spelling) judged with a non-integer x, plus distinct refusal queries")
    run.assumptions = ["textbook maps: K=C+273.15; K=(F+459.67)*5/9; K=Re*5/4+273.15; K=(Ro-7.5)*40/21+273.15; "
                       "K=373.15-De*2/3; K=N*100/33+273.15"]
    n = 6000 if tier == "quick" else 3000000
    per = nproc()
    for res in shard_map(work, [None] * per, (seed, n // per + 1)):
        run.merge(res)
    run.extra_cov["systematic_spelling_pairs"] = sum(len(SPELLINGS[a]) * len(SPELLINGS[b]) for a in SCALES for b in SCALES)
    return run.finish()


if __name__ == "__main__":
    from lib.common import tier_seed
    a = tier_seed()
    sys.exit(run(a.tier, a.seed))
