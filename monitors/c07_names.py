"""C07 — unit names resolve exact first, then prefix, then plural; canonicalising never
changes the denoted value; resolution is deterministic.

Exhaustive sweep of prefix+unit[+s] over the bundled database against an independent
Python model of the three-stage rule; thorough adds generated databases with colliding names."""
import random
import sys
from fractions import Fraction

from lib import refexpr as R
from lib.common import Part, Run, panic_sig
from lib.probe import shard_map, split, worker_probe, nproc, HarnessError
from lib.registry import Registry, num_val, dims_key

BATCH = 400


def same(a, b):
    """model Val vs rink Val"""
    if a is None or b is None:
        return a is None and b is None
    if a.f or b.f:
        return dims_key(a.d) == dims_key(b.d) and a.f == b.f
    return a.v == b.v and dims_key(a.d) == dims_key(b.d)


def shape_of_unresolvable(reg, name, how):
    """Classify a name whose canonical form denotes nothing."""
    if how is None:
        return "unknown"
    h = how[1:] if how[0] == "plural" else how
    if h[0] == "prefix":
        rest = h[2]
        d = reg.definitions.get(rest)
        if d is not None and d["ast"].get("type") == "unit":
            target = d["ast"]["name"]
            if reg.lookup_exact(target) is None:
                v, th = reg.lookup_prefixed(target)
                if th is not None and th[0] == "prefix":
                    return "prefix+alias-of-prefixed-unit"
        return "prefix+other"
    return "exact"


def check_names(part, probe, cid, reg, names, tag):
    for i in range(0, len(names), BATCH):
        chunk = names[i:i + BATCH]
        r = probe.request({"op": "lookup", "ctx": cid, "names": chunk, "compact": True}, timeout=120)
        if "results" not in r:
            raise HarnessError("lookup failed: %r" % (r,))
        for name, res in zip(chunk, r["results"]):
            if name in ("ans", "ANS", "_"):
                continue          # previous-result names are C15's business
            part.evaluations += 1
            if "panic" in res:
                part.violation(panic_sig(res["panic"]), {"name": name, "db": tag, "panic": res["panic"]},
                               "panic while resolving a name")
                continue
            mv, how = reg.lookup(name)
            rv = num_val(res["v"]) if res["v"] is not None else None
            readings = reg.readings(name)
            if len(readings) >= 2:
                part.seen(tag + "|" + name)
                part.count("competing:" + "+".join(readings))
            if how is not None:
                part.count("resolved_by:" + how[0])
            else:
                part.count("unresolved")
            if not same(mv, rv):
                part.violation({"kind": "resolution_differs", "model_stage": how[0] if how else "none",
                                "rink_found": rv is not None},
                               {"name": name, "db": tag, "model": _show(mv), "model_how": how, "rink": res["v"]},
                               "name does not denote what exact/prefix/plural order dictates")
                continue
            if not res["again_same"]:
                part.violation({"kind": "nondeterministic_lookup"}, {"name": name, "db": tag}, "")
                continue
            if rv is not None and res["canon"] in ("ans", "ANS", "_"):
                part.count("canonical_is_previous_result_name")     # `a`+`ns` spells the previous-result name: C15's business
            elif rv is not None and res["canon"] is not None:
                if not res["cv_some"]:
                    shape = shape_of_unresolvable(reg, name, how)
                    part.violation({"kind": "canonical_name_unresolvable", "shape": shape},
                                   {"name": name, "canon": res["canon"], "db": tag},
                                   "canonical name denotes nothing although the name does")
                    continue
                if not res["cv_same"]:
                    part.violation({"kind": "canonical_name_changes_value"},
                                   {"name": name, "canon": res["canon"], "value": res["v"], "canon_value": res["cv"],
                                    "db": tag},
                                   "canonicalising changed the value the name denotes")
                    continue
                part.count("canonical_ok")
            if len(readings) >= 2:
                part.sample({"name": name, "readings": readings, "resolved": how[0] if how else None,
                             "canon": res["canon"]})
    return


def _show(v):
    if v is None:
        return None
    return {"v": str(v.v), "d": v.d, "f": v.f}


def sweep_names(reg, prefixes=None):
    base = reg.all_names()
    pres = [p for p, _ in reg.prefixes] if prefixes is None else prefixes
    for n in base:
        yield n
        yield n + "s"
    for p in pres:
        for n in base:
            yield p + n
            yield p + n + "s"


def work_bundled(idx, chunk, seed):
    probe = worker_probe()
    part = Part()
    cid = probe.ctx("bundled")
    d = probe.request({"op": "dump", "ctx": cid}, timeout=120)
    reg = Registry(d["dump"])
    check_names(part, probe, cid, reg, chunk, "bundled")
    return part.export()


# ------------------------------------------------------------- generated databases

def gen_db(rng):
    """Small database with deliberately colliding names."""
    letters = "abkmins"
    bases = rng.sample(["m", "s", "g", "b", "in", "k"], rng.randrange(2, 5))
    lines = []
    for b in bases:
        if rng.random() < 0.5:
            lines.append("%s !%s" % (b, b + rng.choice(["eter", "ase", "long"])))
        else:
            lines.append("%s !" % b)
    prefixes = []
    cand = ["k", "m", "mi", "min", "ki", "kilo", "mega", "milli", "s", "a", "ab", "in", "d", "da"]
    rng.shuffle(cand)
    vals = {}
    for p in cand[:rng.randrange(2, 7)]:
        val = rng.choice(["1e3", "1e-3", "1e6", "2", "1|2", "60", "1e3"])
        if rng.random() < 0.5:
            lines.append("%s- %s" % (p, val))          # long prefix (also a unit)
        else:
            lines.append("%s-- %s" % (p, val))         # short prefix
        prefixes.append(p)
    names = set(bases)
    for _ in range(rng.randrange(4, 14)):
        r = rng.random()
        if r < 0.35 and prefixes:
            # a unit named exactly like prefix+unit (or its plural)
            n = rng.choice(prefixes) + rng.choice(sorted(names)) + rng.choice(["", "", "s"])
        elif r < 0.6:
            n = rng.choice(sorted(names)) + "s"           # a unit that looks like a plural
        else:
            n = "".join(rng.choice(letters) for _ in range(rng.randrange(1, 4)))
        if n in names or n in prefixes or not n[0].isalpha() or n in ("ans", "ANS", "_"):
            continue          # the previous-result names are not unit names (C15's business)
        target = rng.choice(sorted(names))
        if rng.random() < 0.3:
            lines.append("%s %s" % (n, target))           # alias
        else:
            lines.append("%s %d %s" % (n, rng.randrange(2, 50), target))
        names.add(n)
    if rng.random() < 0.7 and len(prefixes) >= 2:
        # a reference that splits into prefix + unit in two ways (p1 + xy / p1x + y), used by a definition
        for p1 in prefixes:
            for p2 in prefixes:
                if p2 != p1 and p2.startswith(p1):
                    rest = p2[len(p1):]
                    u_long, u_short = rest + "zz", "zz"
                    if u_long not in names and u_short not in names:
                        lines.append("%s 7 %s" % (u_short, sorted(bases)[0]))
                        lines.append("%s 11 %s" % (u_long, sorted(bases)[-1]))
                        lines.append("ambref 3 %s" % (p1 + u_long))
                        lines.append("ambalias %s" % (p1 + u_long))
                        names |= {u_long, u_short, "ambref", "ambalias"}
                    break
            else:
                continue
            break
    rng.shuffle(lines)
    return "\n".join(lines) + "\n"


def work_generated(idx, chunk, seed):
    probe = worker_probe()
    part = Part()
    for dbseed in chunk:
        rng = random.Random(dbseed)
        text = gen_db(rng)
        r = probe.request({"op": "load", "steps": [{"kind": "text", "text": text}]}, timeout=60)
        if "ctx" not in r:
            raise HarnessError("load failed: %r" % (r,))
        cid = r["ctx"]
        d = probe.request({"op": "dump", "ctx": cid}, timeout=60)
        reg = Registry(d["dump"])
        names = sorted(set(sweep_names(reg)))
        # plus prefix+prefix+unit and random strings over the alphabet of the database
        extra = set()
        pres = [p for p, _ in reg.prefixes]
        for p1 in pres:
            for p2 in pres:
                for n in reg.all_names():
                    extra.add(p1 + p2 + n)
        names += sorted(extra)[:2000]
        check_names(part, probe, cid, reg, names, "gen:%d" % dbseed)
        # a name must denote the same value when a definition was evaluated during the load as it does now
        ev = probe.request({"op": "evaldefs", "ctx": cid}, timeout=60)
        for uname, got in (ev.get("values") or {}).items():
            part.evaluations += 1
            stored = d["dump"]["units"].get(uname)
            if stored is None or "number" not in got:
                continue
            if got["number"] != stored:
                part.violation({"kind": "name_denoted_another_value_at_load_time"},
                               {"db": "gen:%d" % dbseed, "unit": uname, "definition": d["dump"]["definitions"][uname]["text"],
                                "stored": stored, "now": got["number"], "text": text},
                               "a definition evaluated during the load read a name differently from how it resolves now")
            else:
                part.count("generated_definition_fixed_point_ok")
        part.count("generated_databases")
        probe.request({"op": "dropctx", "ctx": cid})
    return part.export()


def run(tier, seed):
    run = Run("C07", tier, seed, "exploration", floor=300)
    run.rule = ("every string prefix+unit[+s] over all stored prefixes x all unit and base-unit names of the "
                "bundled database, plus every bare name and plural, resolved by rink (lookup, canonicalize, "
                "lookup of the canonical name, second lookup) and by the independent three-stage model; "
                "non-trivial = distinct name for which at least two readings (exact / prefix / plural) compete")
    run.assumptions = ["unit values and prefix order are taken from the loaded database (C08/C12 judge those)",
                       "ans/ANS/_ and load-time temporaries are C15's business"]
    probe = worker_probe()
    cid = probe.ctx("bundled")
    d = probe.request({"op": "dump", "ctx": cid}, timeout=120)
    reg = Registry(d["dump"])
    names = list(sweep_names(reg))
    run.extra_cov["bundled_names_swept"] = len(names)
    run.extra_cov["prefixes"] = len(reg.prefixes)
    run.extra_cov["unit_and_base_names"] = len(reg.all_names())
    run.exhaustive = True
    for res in shard_map(work_bundled, split(names, nproc() * 4), (seed,)):
        run.merge(res)
    ndb = 24 if tier == "quick" else 4000
    seeds = [seed * 100003 + i for i in range(ndb)]
    for res in shard_map(work_generated, split(seeds, nproc()), (seed,)):
        run.merge(res)
    return run.finish()


if __name__ == "__main__":
    from lib.common import tier_seed
    a = tier_seed()
    sys.exit(run(a.tier, a.seed))
