"""Fault-injecting HTTP/1.1 server for C20.  The requested path selects the behaviour:

  /ok                 200, Content-Length, complete body
  /ok2                200, Content-Length, a second (shorter) complete body
  /chunked            200, chunked transfer encoding, complete body
  /cl_cut/<k>         200, Content-Length of the full body, connection closed after k body bytes
  /chunk_cut/<k>      200, chunked, connection closed after k body bytes (no terminating chunk)
  /hdr_cut/<k>        200, connection closed after k bytes of the status line and headers
  /status/<code>      that status with a small body (3xx carry a Location header)
  /stall/<ms>         headers and half the body, then silence for <ms> milliseconds
  /stall_headers/<ms> nothing at all for <ms> milliseconds
  /rst                headers, then the connection is reset (SO_LINGER 0)
  /garbage            200 with a complete body that is not JSON

The body served is whatever `body` the server was created with.  Every request is logged."""
import socket
import struct
import threading
import time


class FaultServer:
    def __init__(self, body, body2=None):
        self.body = body
        self.body2 = body2 if body2 is not None else body      # served by /ok2 (a second, shorter complete body)
        self.sock = socket.socket(socket.AF_INET, socket.SOCK_STREAM)
        self.sock.setsockopt(socket.SOL_SOCKET, socket.SO_REUSEADDR, 1)
        self.sock.bind(("127.0.0.1", 0))
        self.sock.listen(64)
        self.port = self.sock.getsockname()[1]
        self.log = []
        self.lock = threading.Lock()
        self.stop = False
        self.thread = threading.Thread(target=self._serve, daemon=True)
        self.thread.start()

    def url(self, path):
        return "http://127.0.0.1:%d%s" % (self.port, path)

    def close(self):
        self.stop = True
        try:
            self.sock.close()
        except OSError:
            pass

    def requests_seen(self, path=None):
        with self.lock:
            return [p for p in self.log if path is None or p == path]

    def _serve(self):
        while not self.stop:
            try:
                conn, _ = self.sock.accept()
            except OSError:
                return
            threading.Thread(target=self._handle, args=(conn,), daemon=True).start()

    def _handle(self, conn):
        try:
            conn.settimeout(10)
            data = b""
            while b"\r\n\r\n" not in data:
                chunk = conn.recv(4096)
                if not chunk:
                    return
                data += chunk
            line = data.split(b"\r\n", 1)[0].decode("latin1")
            parts = line.split(" ")
            path = parts[1] if len(parts) > 1 else "/"
            with self.lock:
                self.log.append(path)
            seg = path.strip("/").split("/")
            kind = seg[0]
            arg = int(seg[1]) if len(seg) > 1 and seg[1].lstrip("-").isdigit() else 0
            body = self.body
            hdr_cl = (b"HTTP/1.1 200 OK\r\nContent-Type: application/json\r\nContent-Length: %d\r\nConnection: close\r\n\r\n"
                      % len(body))
            hdr_ch = b"HTTP/1.1 200 OK\r\nContent-Type: application/json\r\nTransfer-Encoding: chunked\r\nConnection: close\r\n\r\n"

            def chunks(b, size=1000):
                out = b""
                for i in range(0, len(b), size):
                    c = b[i:i + size]
                    out += b"%x\r\n" % len(c) + c + b"\r\n"
                return out
            if kind == "ok":
                conn.sendall(hdr_cl + body)
            elif kind == "ok2":
                b2 = self.body2
                conn.sendall(b"HTTP/1.1 200 OK\r\nContent-Type: application/json\r\nContent-Length: %d\r\nConnection: close\r\n\r\n" % len(b2) + b2)
            elif kind == "chunked":
                conn.sendall(hdr_ch + chunks(body) + b"0\r\n\r\n")
            elif kind == "cl_cut":
                conn.sendall(hdr_cl + body[:arg])
            elif kind == "hdr_cut":
                # the connection closes inside the response headers (after <arg> bytes of status line + headers)
                conn.sendall((hdr_cl + body)[:arg])
            elif kind == "chunk_cut":
                conn.sendall(hdr_ch + chunks(body[:arg]))
            elif kind == "status":
                extra = b"Location: http://127.0.0.1:%d/ok\r\n" % self.port if 300 <= arg < 400 else b""
                msg = b"status %d" % arg
                conn.sendall(b"HTTP/1.1 %d X\r\n%sContent-Length: %d\r\nConnection: close\r\n\r\n%s" % (arg, extra, len(msg), msg))
            elif kind == "stall":
                conn.sendall(hdr_cl + body[:len(body) // 2])
                time.sleep(arg / 1000.0)
            elif kind == "stall_headers":
                time.sleep(arg / 1000.0)
            elif kind == "rst":
                conn.sendall(hdr_cl + body[:100])
                conn.setsockopt(socket.SOL_SOCKET, socket.SO_LINGER, struct.pack("ii", 1, 0))
            elif kind == "garbage":
                g = b"this is not json {{{" * 10
                conn.sendall(b"HTTP/1.1 200 OK\r\nContent-Length: %d\r\nConnection: close\r\n\r\n%s" % (len(g), g))
            else:
                conn.sendall(b"HTTP/1.1 404 X\r\nContent-Length: 0\r\nConnection: close\r\n\r\n")
        except OSError:
            pass
        finally:
            try:
                conn.close()
            except OSError:
                pass


def closed_port():
    """a loopback port with nothing listening (connection refused)"""
    s = socket.socket()
    s.bind(("127.0.0.1", 0))
    p = s.getsockname()[1]
    s.close()
    return p
