"""C19 — sandbox allocator accounts for every byte and enforces its limit.

Runs `allocmon` (the real sandbox/src/alloc.rs compiled into a monitor with a reference model,
content patterns and quiescent-point conservation checks) natively, under Miri (UB, data races,
weak memory, leaks; many seeds), ThreadSanitizer, AddressSanitizer and valgrind memcheck."""
import json
import os
import re
import subprocess
import sys
import time

from lib.common import Run
from lib.probe import HARNESS, TARGET, cargo_env, HarnessError

PACKAGES = ("allocmon",)
NATIVE = os.path.join(TARGET, "debug", "allocmon")
TRIPLE = "x86_64-unknown-linux-gnu"


def sh(cmd, env=None, timeout=3600, cwd=HARNESS):
    e = cargo_env()
    if env:
        e.update(env)
    t0 = time.time()
    p = subprocess.run(cmd, cwd=cwd, env=e, stdout=subprocess.PIPE, stderr=subprocess.PIPE, text=True, timeout=timeout)
    return p.returncode, p.stdout, p.stderr, time.time() - t0


def parse_reports(out):
    reps = []
    for line in out.splitlines():
        line = line.strip()
        if line.startswith("{") and '"histories"' in line:
            try:
                reps.append(json.loads(line))
            except ValueError:
                pass
    return reps


def norm_violation(v):
    m = re.search(r"(?:at step \d+|at drain): (.*)$", v)
    msg = m.group(1) if m else v
    msg = re.sub(r"^after [^:]*: ", "", msg)
    msg = re.sub(r"\b(Alloc|AllocZeroed|Realloc|Dealloc)\([^)]*\)", r"\1(..)", msg)
    msg = re.sub(r"\d+", "N", msg)
    return msg[:120]


def absorb(run, tool, rc, out, err, wall, expect_reports=1):
    """Fold one allocmon run into the verdict. rc: process exit code."""
    reps = parse_reports(out)
    if not reps:
        # no JSON at all: a sanitizer may have aborted the process, or the tool itself failed
        text = (err or "") + (out or "")
        if re.search(r"ThreadSanitizer|AddressSanitizer|LeakSanitizer|Undefined Behavior|Data race|ERROR SUMMARY: [1-9]", text):
            summ = re.findall(r"(SUMMARY: [^\n]*|error: Undefined Behavior[^\n]*|error: [^\n]*[Dd]ata race[^\n]*)", text)
            run.violation({"kind": "sanitizer_report", "tool": tool, "summary": re.sub(r"0x[0-9a-f]+|\d+", "N", (summ or ["?"])[0])[:140]},
                          {"tool": tool, "exit": rc, "report": text[-3000:]}, "%s reported a memory/concurrency error in the allocator workload" % tool)
            return
        raise HarnessError("%s produced no report (exit %s): %s" % (tool, rc, text[-1500:]))
    for rep in reps:
        run.evaluations += rep["histories"]
        run.count("ops:" + tool, rep["ops"])
        run.count("histories:" + tool, rep["histories"])
        run.distinct_extra += rep["distinct_sequential_histories"] + rep["distinct_interleaving_fingerprints"]
        run.count("distinct_sequential_histories:" + tool, rep["distinct_sequential_histories"])
        run.count("distinct_interleaving_fingerprints:" + tool, rep["distinct_interleaving_fingerprints"])
        run.count("thread_runs:" + tool, rep["thread_runs"])
        run.count("refused_allocations:" + tool, rep["refused_allocations"])
        for s in rep["samples"]:
            run.sample({"tool": tool, "history": s[:300]})
        for v in rep["violations"]:
            run.violation({"kind": "accounting_violation", "what": norm_violation(v)}, {"tool": tool, "detail": v[-1500:]},
                          "allocator accounting differs from the reference model")
    text = (err or "")
    if re.search(r"WARNING: ThreadSanitizer|ERROR: AddressSanitizer|ERROR: LeakSanitizer|error: Undefined Behavior|Data race detected|ERROR SUMMARY: [1-9]", text):
        summ = re.findall(r"(SUMMARY: [^\n]*|error: Undefined Behavior[^\n]*|ERROR SUMMARY: [^\n]*)", text)
        run.violation({"kind": "sanitizer_report", "tool": tool, "summary": re.sub(r"0x[0-9a-f]+|\d+", "N", (summ or ["?"])[0])[:140]},
                      {"tool": tool, "exit": rc, "report": text[-3000:]}, "%s reported a memory/concurrency error in the allocator workload" % tool)
    elif rc not in (0, 1):
        raise HarnessError("%s exited with %s without a recognisable report: %s" % (tool, rc, text[-1500:]))
    run.extra_cov.setdefault("tool_wall_s", {})[tool] = round(wall, 1)


def build(tool, cmd, env):
    rc, out, err, wall = sh(cmd, env)
    if rc != 0:
        raise HarnessError("building allocmon for %s failed (harness failure): %s" % (tool, err[-2000:]))
    return wall


def run(tier, seed):
    run = Run("C19", tier, seed, "exploration", floor=1000)
    run.rule = ("operation histories over {alloc, alloc_zeroed, realloc up/down, dealloc, reset_max} x sizes {1, 64, limit/2, limit, "
                "limit+1} x limits {0, 4096, usize::MAX}: bounded-exhaustive single-thread histories against a reference model "
                "with per-block content patterns, seeded random histories of length 200, and 2..16 threads on one allocator with "
                "conservation checked at barriers; the same workload under Miri (many seeds), TSan, ASan and valgrind; non-trivial "
                "= distinct operation histories (length >= 2) plus distinct interleaving fingerprints (which thread reached each "
                "barrier first)")
    run.assumptions = ["refusing although the final usage would fit (realloc charges old+new transiently) is allowed: the statement says 'only if'",
                       "the peak may over-estimate under concurrency; it must never be below a usage that was certainly reached",
                       "private counters are read by a helper compiled into the same module as the included source file (no change to /repo)"]
    q = tier == "quick"
    # 1. native
    args = ["all", "--seed", str(seed), "--maxlen", "4" if q else "5", "--extra-len", "0" if q else "6",
            "--random", "10000" if q else "100000", "--len", "200", "--thread-reps", "4" if q else "24",
            "--rounds", "20", "--ops-per-round", "300"]
    rc, out, err, wall = sh([NATIVE] + args)
    absorb(run, "native", rc, out, err, wall)
    run.exhaustive = True
    # 2. Miri
    # one process per Miri scheduler seed, each with its own watchdog: the interpreter's random preemption makes the
    # running time of a seed vary widely, and a seed that overruns is inconclusive, not a failure
    nseeds = 2 if q else 32
    margs = ["all", "--seed", str(seed), "--maxlen", "2", "--random", "20" if q else "60", "--len", "40", "--thread-reps", "1",
             "--rounds", "3", "--ops-per-round", "30" if q else "60", "--max-threads", "4" if q else "8"]
    miri_cmd = ["cargo", "+nightly", "miri", "run", "--offline", "-p", "allocmon", "--target-dir", os.path.join(TARGET, "miri"), "--"] + margs

    def one_seed(ms):
        try:
            return (ms,) + sh(miri_cmd, {"MIRIFLAGS": "-Zmiri-seed=%d" % ms}, timeout=600 if q else 2400)
        except subprocess.TimeoutExpired:
            return (ms, None, "", "", 0.0)
    from concurrent.futures import ThreadPoolExecutor
    first = one_seed(0)                      # builds the interpreter's copy of the crate once
    with ThreadPoolExecutor(max_workers=max(1, (os.cpu_count() or 2))) as ex:
        results = [first] + list(ex.map(one_seed, range(1, nseeds)))
    done = 0
    for ms, rc, out, err, wall in results:
        if rc is None:
            run.inconclusive_event("Miri seed exceeded its watchdog", {"miri_seed": ms})
            continue
        if "error: Undefined Behavior" not in err and "Data race" not in err and not parse_reports(out):
            raise HarnessError("miri run failed (harness failure, seed %d): %s" % (ms, err[-2000:]))
        absorb(run, "miri", rc, out, err, wall)
        done += 1
    if done == 0:
        raise HarnessError("no Miri seed finished within its watchdog")
    run.extra_cov["miri_seeds"] = "%d of %d seeds finished" % (done, nseeds)
    # 3. ThreadSanitizer
    build("tsan", ["cargo", "+nightly", "build", "--offline", "-Zbuild-std", "--target", TRIPLE, "-p", "allocmon",
                   "--target-dir", os.path.join(TARGET, "tsan")], {"RUSTFLAGS": "-Zsanitizer=thread"})
    targs = ["threads", "--seed", str(seed), "--thread-reps", "3" if q else "20", "--rounds", "15", "--ops-per-round", "300"]
    rc, out, err, wall = sh([os.path.join(TARGET, "tsan", TRIPLE, "debug", "allocmon")] + targs,
                            {"TSAN_OPTIONS": "halt_on_error=1 exitcode=66"})
    absorb(run, "tsan", rc, out, err, wall)
    # 4. AddressSanitizer (+ leak detection)
    build("asan", ["cargo", "+nightly", "build", "--offline", "--target", TRIPLE, "-p", "allocmon",
                   "--target-dir", os.path.join(TARGET, "asan")],
          {"RUSTFLAGS": "-Zsanitizer=address -Cforce-frame-pointers=yes"})
    aargs = ["all", "--seed", str(seed), "--maxlen", "3" if q else "4", "--random", "2000" if q else "20000", "--thread-reps",
             "1" if q else "4"]
    rc, out, err, wall = sh([os.path.join(TARGET, "asan", TRIPLE, "debug", "allocmon")] + aargs,
                            {"ASAN_OPTIONS": "halt_on_error=1:detect_leaks=1:abort_on_error=0"})
    absorb(run, "asan", rc, out, err, wall)
    # 5. valgrind memcheck on the plain build
    vargs = ["all", "--seed", str(seed), "--maxlen", "2" if q else "3", "--random", "200" if q else "2000", "--thread-reps", "1",
             "--rounds", "5"]
    rc, out, err, wall = sh(["valgrind", "--error-exitcode=9", "--leak-check=full", "-q", NATIVE] + vargs)
    if rc == 9 or re.search(r"== (Invalid|Conditional jump|Use of uninit|.*definitely lost)", err):
        run.violation({"kind": "sanitizer_report", "tool": "memcheck", "summary": re.sub(r"\d+", "N", err.strip().splitlines()[0] if err.strip() else "?")[:140]},
                      {"tool": "memcheck", "report": err[-3000:]}, "valgrind memcheck reported an error in the allocator workload")
    else:
        absorb(run, "memcheck", rc, out, err, wall)
    return run.finish()


if __name__ == "__main__":
    from lib.common import tier_seed
    a = tier_seed()
    sys.exit(run(a.tier, a.seed))
