"""Python model of a loaded rink database, built from the probe's `dump` (data only).

Implements the documented three-stage name resolution (exact, then prefix+unit with the
first prefix in stored order, then plural) independently of rink's code."""
from fractions import Fraction

from . import refexpr as R

KEYWORDS = set(R.DEGREES) | {"per", "to", "in", "mod", "and", "or", "xor", "of", "now", "ans", "ANS", "_",
                             "factorize", "units", "search", "digits", "frac", "fraction", "ratio",
                             "sci", "scientific", "eng", "engineering", "base", "hex", "hexadecimal",
                             "base16", "oct", "octal", "base8", "bin", "binary", "base2", "for"}
ATTRS = {"int", "international", "UKSJJ", "UKB", "UKC", "UKK", "imperial", "british", "UK", "survey",
         "geodetic", "irish", "aust", "australian", "roman", "egyptian", "greek", "olympic"}
FUNCS = set(R.FUNCS1) | set(R.FUNCS2)
SPECIAL_FIRST = set(" \t\n()+;%=^,|∕:→<>*-−/0123456789.\\'#\"")


def num_val(j):
    """probe number json -> R.Val (with .f flag for floats)"""
    if j.get("f"):
        if "n" not in j:
            v = R.Val(Fraction(0), dict(j["u"]))
            v.f = True
            v.nan = True
            return v
        v = R.Val(Fraction(int(j["n"]), int(j["d"])), dict(j["u"]))
        v.f = True
        return v
    return R.Val(Fraction(int(j["n"]), int(j["d"])), dict(j["u"]))


def dims_key(d):
    return tuple(sorted((k, int(p)) for k, p in d.items()))


def is_plain_ident(name):
    if not name or name[0] in SPECIAL_FIRST:
        return False
    return all(c.isalnum() or c in "_$" for c in name[1:])


def render_name(name):
    """How to write a unit name in a query so that rink reads it as that one name.
    Returns None when the name cannot be written at all."""
    if name in FUNCS or name in ATTRS:
        return None           # would be read as a function call / attribute even when quoted
    if is_plain_ident(name) and name not in KEYWORDS:
        try:
            name.encode("utf-8")
        except UnicodeEncodeError:
            return None
        # a plain identifier must also survive the timezone check in conversions; callers
        # that put names after `->` use render_target()
        return name
    if '"' in name or "\\" in name or "\n" in name:
        return None
    return '"%s"' % name


class Registry:
    def __init__(self, dump):
        self.dump = dump
        self.base_units = set(dump["base_units"])
        self.long_names = dict(dump["long_names"])
        self.units = {}
        for k, j in dump["units"].items():
            self.units[k] = num_val(j)
        self.prefixes = []
        for name, j in dump["prefixes"]:
            if j.get("f"):
                self.prefixes.append((name, None))
            else:
                self.prefixes.append((name, Fraction(int(j["n"]), int(j["d"]))))
        self.definitions = dump["definitions"]
        self.quantities = {dims_key(d): n for d, n in dump["quantities"]}
        self.quantity_dims = {n: dims_key(d) for d, n in dump["quantities"]}
        self.decomposition = {dims_key(d): n for d, n in dump["decomposition_units"]}
        self.docs = dump["docs"]
        self.categories = dump["categories"]
        self.category_names = dump["category_names"]
        self.substances = dump["substances"]
        self.symbols = dump["symbols"]

    # --- three-stage lookup, from the property statement -------------------------
    def lookup_exact(self, name):
        if name in self.base_units:
            return R.Val(Fraction(1), {name: 1})
        return self.units.get(name)

    def lookup_prefixed(self, name):
        v = self.lookup_exact(name)
        if v is not None:
            return v, ("exact", name)
        for pre, pv in self.prefixes:
            if name.startswith(pre):
                u = self.lookup_exact(name[len(pre):])
                if u is not None:
                    if pv is None:
                        w = R.Val(Fraction(0), dict(u.d))
                        w.f = True
                        w.nan = True
                        return w, ("prefix", pre, name[len(pre):])
                    w = R.Val(u.v * pv, dict(u.d))
                    w.f = bool(getattr(u, "f", False))     # float-valued unit: value known to float precision only
                    return w, ("prefix", pre, name[len(pre):])
        return None, None

    def lookup(self, name):
        v, how = self.lookup_prefixed(name)
        if v is not None:
            return v, how
        if name.endswith("s"):
            v, how = self.lookup_prefixed(name[:-1])
            if v is not None:
                return v, ("plural",) + how
        return None, None

    def readings(self, name):
        """Which of the three readings exist for a name (used to count competing readings)."""
        out = []
        if self.lookup_exact(name) is not None:
            out.append("exact")
        for pre, _ in self.prefixes:
            if name.startswith(pre) and self.lookup_exact(name[len(pre):]) is not None:
                out.append("prefix")
                break
        if name.endswith("s"):
            v, _ = self.lookup_prefixed(name[:-1])
            if v is not None:
                out.append("plural")
        return out

    def env(self):
        """lookup function for refexpr.evaluate: exact values only (floats are out of scope)."""
        def f(name):
            v, _ = self.lookup(name)
            if v is None:
                return None
            if getattr(v, "f", False):
                raise R.OutOfScope("float-valued unit %s" % name)
            return v
        return f

    def all_names(self):
        names = set(self.units) | self.base_units
        return sorted(names)

    def dim_classes(self):
        """dims_key -> sorted unit names with that dimensionality (exact-valued, nonzero)."""
        out = {}
        for n in self.all_names():
            v = self.lookup_exact(n)
            if getattr(v, "f", False):
                continue
            out.setdefault(dims_key(v.d), []).append(n)
        return out
