"""Verdict bookkeeping shared by all monitors: three-valued verdicts, known findings,
replay files, evidence files, exit codes."""
import hashlib
import json
import os
import sys
import time

sys.set_int_max_str_digits(0)

VERIF = os.path.dirname(os.path.dirname(os.path.dirname(os.path.abspath(__file__))))
EVIDENCE_DIR = os.path.join(VERIF, "evidence")
REPLAY_DIR = os.path.join(VERIF, "replays")
KNOWN_FILE = os.path.join(VERIF, "known_findings.json")


def load_known(prop):
    try:
        data = json.load(open(KNOWN_FILE))
    except FileNotFoundError:
        return []
    return [f for f in data.get("findings", []) if f.get("property") == prop]


def sig_key(sig):
    return json.dumps(sig, sort_keys=True, ensure_ascii=False)


class Run:
    """Collects what one check run observed and turns it into verdict + evidence."""

    def __init__(self, prop, tier, seed, level="exploration", floor=2):
        self.prop = prop
        self.tier = tier
        self.seed = seed
        self.level = level
        self.floor = floor            # minimum distinct non-trivial cases for a "held" verdict
        self.t0 = time.time()
        self.evaluations = 0
        self.distinct = set()         # hashes of distinct non-trivial cases
        self.distinct_extra = 0       # distinct counts measured elsewhere (e.g. in workers)
        self.samples = []
        self.counters = {}
        self.violations = {}          # sig_key -> record (first witness kept, count)
        self.known_hits = {}          # sig_key -> record
        self.inconclusive = []
        self.notes = []
        self.rule = ""
        self.assumptions = []
        self.exhaustive = None
        self.extra_cov = {}
        self.known = load_known(prop)
        # stale witnesses of earlier runs must not be mistaken for this run's
        import glob
        for f in glob.glob(os.path.join(REPLAY_DIR, "%s-%s-*.json" % (prop, tier))):
            try:
                os.remove(f)
            except OSError:
                pass
        self.known_index = {sig_key(f["signature"]): f for f in self.known}

    # -- counting -----------------------------------------------------------------
    def count(self, key, n=1):
        self.counters[key] = self.counters.get(key, 0) + n

    def seen(self, case):
        """Register a distinct non-trivial case (hashable or json-able)."""
        if not isinstance(case, (str, bytes)):
            case = json.dumps(case, sort_keys=True, default=str)
        if isinstance(case, str):
            case = case.encode()
        self.distinct.add(hashlib.blake2b(case, digest_size=8).digest())

    def sample(self, s, cap=12):
        if len(self.samples) < cap:
            self.samples.append(s)

    # -- verdict events -----------------------------------------------------------
    def violation(self, sig, witness, what=None):
        """sig: dict, the exact signature used to match known findings.
        witness: json-able detail sufficient to replay."""
        k = sig_key(sig)
        if k in self.known_index:
            rec = self.known_hits.setdefault(k, {"sig": sig, "count": 0, "witness": witness,
                                                  "what": self.known_index[k].get("what", "")})
            rec["count"] += 1
            return False
        rec = self.violations.setdefault(k, {"sig": sig, "count": 0, "witness": witness,
                                              "what": what or ""})
        rec["count"] += 1
        return True

    def inconclusive_event(self, reason, detail=None):
        self.count("inconclusive:" + reason)
        if len(self.inconclusive) < 50:
            self.inconclusive.append({"reason": reason, "detail": detail})

    def merge(self, part):
        """Merge a worker's partial result (dict produced by Part.export())."""
        self.evaluations += part["evaluations"]
        for k, v in part["counters"].items():
            self.counters[k] = self.counters.get(k, 0) + v
        for h in part["distinct"]:
            self.distinct.add(bytes.fromhex(h))
        for s in part["samples"]:
            self.sample(s)
        for sig, witness, what in part["violations"]:
            self.violation(sig, witness, what)
        for reason, detail in part["inconclusive"]:
            self.inconclusive_event(reason, detail)

    # -- finish -------------------------------------------------------------------
    def finish(self):
        wall = time.time() - self.t0
        os.makedirs(EVIDENCE_DIR, exist_ok=True)
        os.makedirs(REPLAY_DIR, exist_ok=True)
        nd = len(self.distinct) + self.distinct_extra
        replay_paths = []
        for k, rec in self.violations.items():
            h = hashlib.blake2b(k.encode(), digest_size=6).hexdigest()
            path = os.path.join(REPLAY_DIR, "%s-%s-%s.json" % (self.prop, self.tier, h))
            with open(path, "w") as f:
                json.dump({"property": self.prop, "tier": self.tier, "seed": self.seed,
                           "signature": rec["sig"], "count": rec["count"], "what": rec["what"],
                           "witness": rec["witness"]}, f, indent=1, ensure_ascii=False, default=str)
            replay_paths.append(path)
        coverage = {
            "evaluations": int(self.evaluations),
            "distinct_nontrivial": int(nd),
            "rule": self.rule,
            "samples": self.samples[:12] if self.samples else [],
            "counters": dict(sorted(self.counters.items())),
            "known_findings_matched": [
                {"signature": r["sig"], "count": r["count"], "what": r["what"]}
                for r in self.known_hits.values()],
            "inconclusive_events": self.inconclusive[:20],
            "inconclusive_total": sum(v for k, v in self.counters.items()
                                      if k.startswith("inconclusive:")),
        }
        if self.exhaustive is not None:
            coverage["exhaustive"] = bool(self.exhaustive)
        coverage.update(self.extra_cov)
        ev = {
            "property_id": self.prop,
            "tier": self.tier,
            "seed": int(self.seed),
            "level": self.level,
            "coverage": coverage,
            "assumptions": self.assumptions,
            "wall_s": round(wall, 2),
            "violations": len(self.violations),
        }
        if self.notes:
            ev["notes"] = self.notes
        with open(os.path.join(EVIDENCE_DIR, "%s.json" % self.prop), "w") as f:
            json.dump(ev, f, indent=1, ensure_ascii=False, default=str)
        try:        # run log (git-ignored): one line per run, used to quote measured sizes in DESIGN.md
            os.makedirs(os.path.join(VERIF, "logs"), exist_ok=True)
            with open(os.path.join(VERIF, "logs", "runs.jsonl"), "a") as f:
                f.write(json.dumps({"t": int(time.time()), "property": self.prop, "tier": self.tier, "seed": int(self.seed),
                                    "evaluations": int(self.evaluations), "distinct": int(nd), "violations": len(self.violations),
                                    "inconclusive": coverage["inconclusive_total"], "wall_s": round(wall, 1)}) + "\n")
        except OSError:
            pass
        for r in self.known_hits.values():
            print("KNOWN-FINDING: property=%s %s (seen %d times this run)" %
                  (self.prop, r["what"], r["count"]))
        if self.violations:
            for path, rec in zip(replay_paths, self.violations.values()):
                print("VIOLATION property=%s replay=%s" % (self.prop, path))
                print("  signature: %s" % json.dumps(rec["sig"], ensure_ascii=False)[:400])
                print("  what: %s" % str(rec["what"])[:400])
            print("%s: VIOLATED (%d distinct signatures) evaluations=%d distinct=%d wall=%.1fs" %
                  (self.prop, len(self.violations), self.evaluations, nd, wall))
            return 1
        if nd < self.floor or self.evaluations == 0 or not self.samples:
            print("%s: INCONCLUSIVE: observed too little (evaluations=%d distinct=%d floor=%d)" %
                  (self.prop, self.evaluations, nd, self.floor))
            return 2
        inc = coverage["inconclusive_total"]
        print("%s: held on what was observed: evaluations=%d distinct_nontrivial=%d "
              "inconclusive_events=%d known_findings=%d wall=%.1fs" %
              (self.prop, self.evaluations, nd, inc, len(self.known_hits), wall))
        return 0


class Part:
    """Per-worker accumulator, exported as plain data and merged into the Run."""

    def __init__(self):
        self.evaluations = 0
        self.counters = {}
        self.distinct = set()
        self.samples = []
        self.violations = []
        self.inconclusive = []
        self._vseen = {}

    def count(self, key, n=1):
        self.counters[key] = self.counters.get(key, 0) + n

    def seen(self, case):
        if not isinstance(case, (str, bytes)):
            case = json.dumps(case, sort_keys=True, default=str)
        if isinstance(case, str):
            case = case.encode()
        self.distinct.add(hashlib.blake2b(case, digest_size=8).digest())

    def sample(self, s, cap=4):
        if len(self.samples) < cap:
            self.samples.append(s)

    def violation(self, sig, witness, what=None):
        k = sig_key(sig)
        n = self._vseen.get(k, 0)
        self._vseen[k] = n + 1
        if n < 3:   # keep the first few witnesses per signature; count all
            self.violations.append((sig, witness, what))
        else:
            self.count("violation_repeats")

    def inconclusive_event(self, reason, detail=None):
        if len(self.inconclusive) < 20:
            self.inconclusive.append((reason, detail))
        else:
            self.count("inconclusive:" + reason)

    def export(self):
        return {"evaluations": self.evaluations, "counters": self.counters,
                "distinct": [d.hex() for d in self.distinct], "samples": self.samples,
                "violations": self.violations, "inconclusive": self.inconclusive}


def panic_sig(p):
    """Signature of a panic: first in-repo frame (function + file) and normalised message.
    Line numbers are deliberately not part of it."""
    import re
    site = p.get("site") or {}
    fn = site.get("fn", "") or ""
    fn = re.sub(r"::h[0-9a-f]{16}$", "", fn)
    fn = re.sub(r"\{\{closure\}\}(::\{\{closure\}\})*", "{{closure}}", fn)
    msg = p.get("msg", "")
    msg = re.sub(r"\d+", "N", msg)[:160]
    f = site.get("file") or re.sub(r":\d+$", "", p.get("loc", ""))
    return {"kind": "panic", "site": fn, "file": f, "message": msg}


def tier_seed(argv=None):
    import argparse
    ap = argparse.ArgumentParser()
    ap.add_argument("--tier", default=os.environ.get("VERIF_TIER", "quick"),
                    choices=["quick", "thorough"])
    ap.add_argument("--seed", type=int, default=int(os.environ.get("VERIF_SEED", "1")))
    ap.add_argument("--replay", default=None)
    a = ap.parse_args(argv)
    return a
