"""Reading displayed numbers back: numeral x factor x unit = quantity (C06, reused by C16).

Two observation points per NumberParts: the structured fields (exact/approx numeral, factor,
divfactor, raw_unit/unit/dimensions) and the token stream a frontend renders (spans).
Unit names are resolved with the independent registry model, i.e. the way rink reads names."""
import re
from fractions import Fraction

from . import numeral as NR
from . import refexpr as R
from .registry import dims_key


class Unjudgeable(Exception):
    pass


def unit_product(reg, units):
    """units: list of (name, exp) -> (Fraction, dims) via the name-resolution model"""
    v, d = Fraction(1), {}
    for name, exp in units:
        val, how = reg.lookup(name)
        if val is None:
            raise Unjudgeable("printed unit name %r does not resolve" % name)
        if val.f:
            raise Unjudgeable("float-valued unit %r" % name)
        if val.v == 0 and exp < 0:
            raise Unjudgeable("zero unit in denominator")
        v *= R.fpow(val.v, exp)
        d = R.dmul(d, R.dpow(val.d, exp))
    return v, d


def parse_unit_string(s):
    """'meter^2 / second kelvin' -> [(name, exp)...] (the format of NumberParts.unit/dimensions)"""
    out = []
    den = False
    for tok in s.split():
        if tok == "/":
            den = True
            continue
        m = re.match(r"^(.*?)(?:\^(-?\d+))?$", tok)
        name, p = m.group(1), int(m.group(2) or 1)
        out.append((name, -p if den else p))
    return out


def structured_units(np_):
    """The unit a frontend would show for this NumberParts, from the structured fields."""
    if np_.get("raw_unit") is not None:
        return [(k, int(p)) for k, p in np_["raw_unit"].items()]
    if np_.get("unit") is not None:
        return parse_unit_string(np_["unit"])
    if np_.get("dimensions") is not None:
        return parse_unit_string(np_["dimensions"])
    return []


def read_spans(spans):
    """Token stream of one displayed number -> dict(numerals=[(text, approx)], factor, divfactor,
    units=[(name, exp)], quantity).  Follows only the token kinds, not rink's formatting code."""
    numerals, units = [], []
    factor = divfactor = None
    quantity = None
    den = False
    pending_approx = False
    expect = "numeral"          # numeral | factor | divfactor
    i = 0
    while i < len(spans):
        kind, text = spans[i]
        if kind == "Plain":
            t = text
            if "approx." in t:
                pending_approx = True
            if t.strip().startswith("*"):
                expect = "factor"
            if "/" in t and t.strip() in ("/", ):
                den = True
                expect = "divfactor"
            elif t.strip() == "|":
                expect = "divfactor"
        elif kind == "Number":
            if expect == "numeral" and not units and factor is None and not den:
                numerals.append((text, pending_approx))
                pending_approx = False
            elif expect == "factor":
                factor = text
                expect = "unit"
            elif expect == "divfactor":
                divfactor = text
                expect = "unit"
            else:
                raise Unjudgeable("unexpected number token %r" % text)
        elif kind == "Unit":
            expect = "unit"
            exp = 1
            if i + 1 < len(spans) and spans[i + 1][0] == "Pow":
                exp = int(spans[i + 1][1].lstrip("^"))
                i += 1
            if " " in text or "^" in text or "/" in text:
                for n, p in parse_unit_string(text):
                    units.append((n, -p * exp if den else p * exp))
            elif text:
                units.append((text, -exp if den else exp))
        elif kind == "Quantity":
            quantity = text
        i += 1
    return {"numerals": numerals, "factor": factor, "divfactor": divfactor, "units": units,
            "quantity": quantity}


def check_numeral_against(text, base, want, approx, strict=False, float_result=False):
    """want: exact Fraction the numeral should denote.  Returns None if ok else reason."""
    try:
        if approx:
            ok = NR.approx_matches(text, base, want, strict=strict, float_result=float_result)
            return None if ok else "approximate numeral is not the value truncated within one last-digit unit"
        ok = NR.exact_matches(text, 10 if "/" in text else base, want)
        return None if ok else "exact numeral does not denote the value"
    except NR.Unreadable as e:
        return "numeral unreadable: %s" % e
    except NR.TooBig:
        raise Unjudgeable("numeral too large for the reader")


def check_parts(np_, reg, quantity=None, qdims=None, list_entry=False, base=10):
    """Checks one NumberParts from its structured fields.
    quantity: exact Fraction (in base units) the display must denote; default: the parts' own
    raw value.  list_entry: numeral is unmarked and may be a truncation.
    Returns list of (kind, detail) problems (empty = law holds)."""
    problems = []
    raw = np_.get("raw")
    if quantity is None:
        if raw is None or raw.get("f") or "n" not in raw:
            raise Unjudgeable("no exact raw value")
        # raw values are normally in base units; substance replies carry display names there
        # (`gram / millimeter^3`), so the raw unit map is read like any printed unit
        rv, rd = unit_product(reg, [(k, int(p)) for k, p in raw["u"].items()])
        quantity = Fraction(int(raw["n"]), int(raw["d"])) * rv
        qdims = rd
    units = structured_units(np_)
    uv, ud = unit_product(reg, units)
    f = Fraction(int(np_["factor"])) if np_.get("factor") else Fraction(1)
    dv = Fraction(int(np_["divfactor"])) if np_.get("divfactor") else Fraction(1)
    if dv == 0 or uv == 0 or f == 0:
        raise Unjudgeable("zero factor or unit")
    scale = f * uv / dv
    want = quantity / scale          # what the numeral has to denote
    if qdims is not None and dims_key(ud) != dims_key(qdims):
        problems.append(("printed_unit_dimensionality_differs", {"printed": ud, "quantity": qdims}))
    ex, ap = np_.get("exact"), np_.get("approx")
    if ex is None and ap is None:
        problems.append(("no_numeral", {}))
    if list_entry:
        # unmarked: exact or truncation
        t = ex if ex is not None else ap
        why = check_numeral_against(t, base, want, approx=True)
        if why and check_numeral_against(t, base, want, approx=False):
            problems.append(("list_numeral_wrong", {"numeral": t, "should_denote": str(want), "why": why}))
    else:
        if ex is not None:
            why = check_numeral_against(ex, base, want, approx=False)
            if why:
                problems.append(("exact_numeral_times_unit_differs", {"numeral": ex, "should_denote": str(want), "why": why}))
        if ap is not None:
            why = check_numeral_against(ap, base, want, approx=True, float_result=bool(raw and raw.get("f")))
            if why:
                problems.append(("approx_numeral_times_unit_differs", {"numeral": ap, "should_denote": str(want), "why": why}))
    return problems


def check_dimension_text(np_, reg):
    """`dimensions` text denotes raw_dimensions; `quantity` is the registry's name for it."""
    problems = []
    rd = np_.get("raw_dimensions")
    if rd is None:
        return problems
    txt = np_.get("dimensions")
    if txt is not None:
        got = {}
        for n, p in parse_unit_string(txt):
            got = R.dmul(got, {n: p})
        if dims_key(got) != dims_key(rd):
            problems.append(("dimensions_text_differs", {"text": txt, "raw_dimensions": rd}))
    qname = reg.quantities.get(dims_key(rd))
    shown = np_.get("quantity")
    if qname is not None:
        if shown != qname:
            problems.append(("quantity_name_differs", {"shown": shown, "registry": qname}))
    elif shown is not None:
        # without a registry quantity rink may show base^power for single-base-unit dimensionalities
        items = list(rd.items())
        ok = len(items) == 1 and shown in (items[0][0], "%s^%d" % (items[0][0], items[0][1]))
        if not ok:
            problems.append(("quantity_shown_for_unnamed_dimensionality", {"shown": shown, "raw_dimensions": rd}))
    return problems


def check_spans(spans, reg, quantity, qdims, base=10, list_entry=False, float_result=False):
    """Same law from the rendered token stream."""
    problems = []
    rd = read_spans(spans)
    uv, ud = unit_product(reg, rd["units"])
    f = Fraction(int(rd["factor"])) if rd["factor"] else Fraction(1)
    dv = Fraction(int(rd["divfactor"])) if rd["divfactor"] else Fraction(1)
    if dv == 0 or uv == 0 or f == 0:
        raise Unjudgeable("zero factor or unit")
    want = quantity / (f * uv / dv)
    if qdims is not None and dims_key(ud) != dims_key(qdims):
        problems.append(("rendered_unit_dimensionality_differs", {"printed": ud, "quantity": qdims}))
    if not rd["numerals"]:
        problems.append(("no_numeral_rendered", {}))
    for text, approx in rd["numerals"]:
        if list_entry:
            why = check_numeral_against(text, base, want, approx=True)
            if why and check_numeral_against(text, base, want, approx=False):
                problems.append(("rendered_list_numeral_wrong", {"numeral": text, "should_denote": str(want)}))
        else:
            why = check_numeral_against(text, base, want, approx=approx, float_result=float_result and approx)
            if why:
                problems.append(("rendered_numeral_times_unit_differs",
                                 {"numeral": text, "approx": approx, "should_denote": str(want), "why": why}))
    return problems, rd
