"""Independent reader for the numerals rink prints.

Forms: [-]digits[.digits][ '[' digits [', period N'] ']...' ][ e[-]DECIMAL ]   in base b
       [-]P[/Q]                                                               always decimal
The exponent marker 'e' is also a digit in bases >= 15, so a numeral can have several
readings there; readings() returns all of them and callers accept if any satisfies the law.
"""
import re
import sys
from fractions import Fraction

sys.set_int_max_str_digits(0)

DIG = "0123456789abcdefghijklmnopqrstuvwxyz"
MAX_EXP = 400000


class Unreadable(Exception):
    pass


class TooBig(Exception):
    pass


class Reading:
    __slots__ = ("value", "ulp", "recurring", "period_stated", "period_len", "form")

    def __init__(self, value, ulp, recurring=False, period_stated=None, period_len=None, form="plain"):
        self.value = value
        self.ulp = ulp
        self.recurring = recurring
        self.period_stated = period_stated
        self.period_len = period_len
        self.form = form


def _val(ds, base):
    v = 0
    for c in ds:
        k = DIG.find(c)
        if k < 0 or k >= base:
            raise Unreadable("digit %r not in base %d" % (c, base))
        v = v * base + k
    return v


def _mantissa(m, base):
    """m without sign/exponent -> (value, ulp, recurring, stated, plen)"""
    rec = None
    stated = None
    if m.endswith("]..."):
        i = m.find("[")
        if i < 0:
            raise Unreadable("unbalanced bracket")
        rec = m[i + 1:-4]
        m = m[:i]
        pm = re.match(r"^(.*), period (\d+)$", rec)
        if pm:
            rec = pm.group(1)
            stated = int(pm.group(2))
        if not rec:
            raise Unreadable("empty recurring block")
    elif "[" in m or "]" in m:
        raise Unreadable("stray bracket")
    if "." in m:
        ip, fp = m.split(".", 1)
        if "." in fp:
            raise Unreadable("two points")
    else:
        ip, fp = m, None
        if rec is not None:
            raise Unreadable("recurring block without radix point")
    if ip == "" or (fp is not None and fp == "" and rec is None):
        raise Unreadable("missing digits")
    v = Fraction(_val(ip, base))
    flen = 0
    if fp is not None:
        flen = len(fp)
        if fp:
            v += Fraction(_val(fp, base), base ** flen)
    ulp = Fraction(1, base ** flen)
    if rec is not None:
        plen = len(rec)
        v += Fraction(_val(rec, base), (base ** plen - 1) * base ** flen)
        return v, ulp, True, stated, plen
    return v, ulp, False, None, None


def readings(text, base=10, skipped=None):
    """All admissible readings of a numeral printed in `base`.  Readings whose exponent is
    beyond MAX_EXP are not materialised; they are noted in `skipped` (a list) if given."""
    t = text.strip()
    neg = False
    if t.startswith("-"):
        neg = True
        t = t[1:]
    out = []
    if t in ("NaN", "Inf"):
        raise Unreadable("not a number")
    if "/" in t:
        a, b = t.split("/", 1)
        if not (a.isdigit() and b.isdigit()) or int(b) == 0:
            raise Unreadable("bad fraction")
        out.append(Reading(Fraction(int(a), int(b)), Fraction(0), form="fraction"))
    else:
        # candidate splits at an exponent marker
        cands = [(t, None)]
        for m in re.finditer(r"e(-?\d+)$", t):
            pass
        for i, c in enumerate(t):
            if c == "e" and i > 0:
                tail = t[i + 1:]
                if re.fullmatch(r"-?\d+", tail):
                    cands.append((t[:i], int(tail)))
        errs = []
        for mant, exp in cands:
            try:
                v, ulp, recu, stated, plen = _mantissa(mant, base)
            except Unreadable as e:
                errs.append(str(e))
                continue
            if exp is not None:
                if abs(exp) > MAX_EXP:
                    if skipped is not None:
                        skipped.append(exp)
                    continue
                f = Fraction(base) ** exp
                v *= f
                ulp *= f
            out.append(Reading(v, ulp, recu, stated, plen, "sci" if exp is not None else "plain"))
        if not out:
            if skipped:
                raise TooBig("only readings with huge exponents")
            raise Unreadable("; ".join(errs) or "no reading")
    if neg:
        for r in out:
            r.value = -r.value
    return out


def exact_matches(text, base, value):
    """True if some reading of an exact numeral equals value."""
    skipped = []
    if any(r.value == value for r in readings(text, base, skipped)):
        return True
    if skipped:
        raise TooBig("unmatched, and a reading was too large to materialise")
    return False


def approx_matches(text, base, value, strict=False, float_result=False):
    """True if some reading is `value` truncated toward zero within one last-digit unit.
    float_result: the printed number was computed in machine floats, so it may sit a relative 1e-12 to either side of
    the exact value before it is truncated."""
    skipped = []
    for r in readings(text, base, skipped):
        if r.recurring:
            continue
        rv, v = r.value, value
        if v == 0:
            ok = rv == 0
        elif (rv < 0) != (v < 0) and rv != 0:
            ok = False
        else:
            diff = abs(v) - abs(rv)
            if float_result:
                slack = abs(v) / 10 ** 12
                ok = -slack <= diff <= r.ulp + slack
            else:
                ok = (0 < diff if strict else 0 <= diff) and diff < r.ulp
        if ok:
            return True
    if skipped:
        raise TooBig("unmatched, and a reading was too large to materialise")
    return False


def period_consistent(text, base):
    """Stated period (if any) equals the bracket length, in at least one reading."""
    rs = [r for r in readings(text, base) if r.recurring]
    if not rs:
        return True
    return any(r.period_stated is None or r.period_stated == r.period_len for r in rs)
