"""Conversion of rink's serialised expression trees (serde JSON) to the reference AST of
lib.refexpr, so stored definitions can be re-evaluated by the independent evaluator."""
from fractions import Fraction

BINOP = {"add": "+", "sub": "-", "frac": "/", "pow": "^", "shiftL": "<<", "shiftR": ">>",
         "mod": "mod", "and": "and", "or": "or", "xor": "xor"}
DEG = {"celsius": "C", "fahrenheit": "F", "reaumur": "Re", "romer": "Ro", "delisle": "De", "newton": "N"}


class Unsupported(Exception):
    pass


def from_json(j):
    t = j.get("type")
    if t == "unit":
        return ("unit", j["name"])
    if t == "quote":
        return ("quote", j["string"])
    if t == "const":
        v = j["value"]
        return ("num", Fraction(int(v["numer"]), int(v["denom"])))
    if t == "binop":
        op = j["op"]
        if op == "equals":
            return ("eq", from_json(j["left"]), from_json(j["right"]))
        if op not in BINOP:
            raise Unsupported(op)
        return ("bin", BINOP[op], from_json(j["left"]), from_json(j["right"]))
    if t == "unaryop":
        op = j["op"]
        if op == "negative":
            return ("neg", from_json(j["expr"]))
        if op == "positive":
            return ("pos", from_json(j["expr"]))
        if op in DEG:
            return ("deg", DEG[op], from_json(j["expr"]))
        raise Unsupported(str(op))
    if t == "mul":
        return ("mul", [from_json(e) for e in j["exprs"]])
    if t == "of":
        return ("of", j["property"], from_json(j["expr"]))
    if t == "call":
        return ("call", j["func"], [from_json(a) for a in j["args"]])
    raise Unsupported(str(t))


def names_in(j, out=None):
    """All unit names mentioned in a serialised expression."""
    if out is None:
        out = set()
    if isinstance(j, dict):
        if j.get("type") == "unit":
            out.add(j["name"])
        for v in j.values():
            names_in(v, out)
    elif isinstance(j, list):
        for v in j:
            names_in(v, out)
    return out
