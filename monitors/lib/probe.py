"""Driver for rink-probe: process management, watchdogs, sharding.

The probe speaks line-delimited JSON.  rink-core println!s diagnostics to stdout, so the
probe's stdout goes to a scratch file and the protocol uses a dedicated pipe fd.
"""
import json
import os
import resource
import select
import shutil
import signal
import subprocess
import sys
import tempfile
import time
import multiprocessing as mp

VERIF = os.path.dirname(os.path.dirname(os.path.dirname(os.path.abspath(__file__))))
HARNESS = os.path.join(VERIF, "harness")
TARGET = os.path.join(VERIF, "target")
PROBE_BIN = os.path.join(TARGET, "debug", "rink-probe")
RUN_DIR = os.path.join(TARGET, "run")


class HarnessError(Exception):
    pass


def cargo_env():
    env = dict(os.environ)
    env["CARGO_NET_OFFLINE"] = "true"
    env.setdefault("CARGO_TERM_COLOR", "never")
    return env


def build(packages=("rink-probe",), quiet=True):
    """Rebuild the harness binaries from /repo's current working tree (no-op if unchanged)."""
    cmd = ["cargo", "build", "--offline"]
    for p in packages:
        cmd += ["-p", p]
    t0 = time.time()
    r = subprocess.run(cmd, cwd=HARNESS, env=cargo_env(), stdout=subprocess.PIPE,
                       stderr=subprocess.STDOUT, text=True)
    if r.returncode != 0:
        sys.stderr.write(r.stdout[-6000:])
        raise HarnessError("cargo build failed (harness failure, not a verdict)")
    if not quiet:
        sys.stderr.write("[build] %.1fs\n" % (time.time() - t0))
    return time.time() - t0


def _limits(as_bytes):
    def f():
        if as_bytes:
            resource.setrlimit(resource.RLIMIT_AS, (as_bytes, as_bytes))
        resource.setrlimit(resource.RLIMIT_CORE, (0, 0))
    return f


class Probe:
    """One probe process.  request() never raises on probe death/timeout: it returns
    {"died": <signal or exit>} or {"timeout": True} and restarts the process lazily."""

    def __init__(self, as_gib=4, stack_mb=None, binary=PROBE_BIN):
        self.as_bytes = int(as_gib * (1 << 30)) if as_gib else 0
        self.stack_mb = stack_mb
        self.binary = binary
        self.proc = None
        self.rfd = None
        self.buf = b""
        self.ctx_cache = {}
        self.incarnation = 0
        self.restarts = 0
        os.makedirs(RUN_DIR, exist_ok=True)
        self.scratch = tempfile.mkdtemp(prefix="probe-", dir=RUN_DIR)

    def start(self):
        self.close_proc()
        r, w = os.pipe()
        diag = os.path.join(self.scratch, "diag-%d.txt" % self.incarnation)
        open(diag, "w").close()
        env = dict(os.environ)
        if self.stack_mb:
            env["PROBE_STACK_MB"] = str(self.stack_mb)
        env["RUST_BACKTRACE"] = "0"
        out = open(diag, "a")
        # stderr is kept so that a death can be told apart: stack overflow vs failed allocation
        self.stderr_path = os.path.join(self.scratch, "stderr-%d.txt" % self.incarnation)
        err = open(self.stderr_path, "wb")
        self.proc = subprocess.Popen([self.binary, str(w), diag], stdin=subprocess.PIPE,
                                     stdout=out, stderr=err, pass_fds=[w],
                                     env=env, preexec_fn=_limits(self.as_bytes))
        out.close()
        err.close()
        os.close(w)
        self.rfd = r
        self.buf = b""
        self.ctx_cache = {}
        self.incarnation += 1

    def close_proc(self):
        if self.proc is not None:
            try:
                self.proc.kill()
            except Exception:
                pass
            try:
                self.proc.wait(timeout=5)
            except Exception:
                pass
            try:
                self.proc.stdin.close()
            except Exception:
                pass
            self.proc = None
        if self.rfd is not None:
            try:
                os.close(self.rfd)
            except Exception:
                pass
            self.rfd = None

    def close(self):
        self.close_proc()
        shutil.rmtree(self.scratch, ignore_errors=True)

    def alive(self):
        return self.proc is not None and self.proc.poll() is None

    def _readline(self, deadline):
        while b"\n" not in self.buf:
            remaining = deadline - time.time()
            if remaining <= 0:
                return None
            rl, _, _ = select.select([self.rfd], [], [], min(remaining, 1.0))
            if rl:
                chunk = os.read(self.rfd, 1 << 20)
                if not chunk:
                    return b""
                self.buf += chunk
        line, self.buf = self.buf.split(b"\n", 1)
        return line

    def request(self, req, timeout=60.0):
        if not self.alive():
            self.start()
        data = (json.dumps(req) + "\n").encode()
        try:
            self.proc.stdin.write(data)
            self.proc.stdin.flush()
        except (BrokenPipeError, OSError):
            code = self._death()
            return {"died": code, "stderr": self.last_stderr}
        line = self._readline(time.time() + timeout)
        if line is None:
            self.restarts += 1
            self.close_proc()
            return {"timeout": True}
        if line == b"":
            code = self._death()
            return {"died": code, "stderr": self.last_stderr}
        try:
            return json.loads(line)
        except Exception as e:  # protocol corruption is a harness problem
            return {"harness_error": "bad reply: %r (%s)" % (line[:200], e)}

    def _death(self):
        code = None
        try:
            code = self.proc.wait(timeout=5)
        except Exception:
            pass
        self.restarts += 1
        self.close_proc()
        self.last_stderr = ""
        try:
            with open(getattr(self, "stderr_path", ""), "rb") as f:
                self.last_stderr = f.read()[-600:].decode("utf-8", "replace")
        except OSError:
            pass
        return code

    def ctx(self, kind="bundled", **kw):
        """Context id of the given kind in the current incarnation (created on demand)."""
        if not self.alive():
            self.start()
        key = (kind, tuple(sorted(kw.items())))
        if key not in self.ctx_cache:
            r = self.request(dict(op="newctx", kind=kind, **kw), timeout=120)
            if "ctx" not in r:
                raise HarnessError("cannot create %s context: %r" % (kind, r))
            self.ctx_cache[key] = r["ctx"]
        return self.ctx_cache[key]

    def eval(self, q, kind="bundled", timeout=30.0, **kw):
        ctxkw = {}
        if "save_prev" in kw:
            ctxkw["save_prev"] = kw.pop("save_prev")
        cid = self.ctx(kind, **ctxkw)
        return self.request(dict(op="eval", ctx=cid, q=q, **kw), timeout=timeout)


# ---------------------------------------------------------------------------------
# sharding

_WORKER_PROBE = None


def worker_probe(**kw):
    global _WORKER_PROBE
    if _WORKER_PROBE is None:
        _WORKER_PROBE = Probe(**kw)
        import atexit
        atexit.register(_WORKER_PROBE.close)
    return _WORKER_PROBE


def _call(args):
    func, idx, chunk, extra = args
    try:
        return ("ok", idx, func(idx, chunk, *extra))
    except HarnessError as e:
        return ("harness", idx, str(e))
    except Exception:
        import traceback
        return ("harness", idx, traceback.format_exc())


def _worker_init():
    # a probe the parent may own must not be shared with (or closed by) a forked worker
    global _WORKER_PROBE
    _WORKER_PROBE = None


def _worker_exit():
    global _WORKER_PROBE
    if _WORKER_PROBE is not None:
        _WORKER_PROBE.close()
        _WORKER_PROBE = None


def nproc():
    try:
        n = len(os.sched_getaffinity(0))
    except Exception:
        n = os.cpu_count() or 1
    return max(1, min(16, n))


def shard_map(func, chunks, extra=(), procs=None):
    """Run func(idx, chunk, *extra) for every chunk in a pool of worker processes, each of
    which owns one probe (worker_probe()).  Returns results in chunk order.
    A Python exception in a worker is a harness failure."""
    procs = procs or nproc()
    chunks = list(chunks)
    if not chunks:
        return []
    procs = min(procs, len(chunks))
    results = [None] * len(chunks)
    ctx = mp.get_context("fork")
    with ctx.Pool(processes=procs, initializer=_worker_init) as pool:
        try:
            for status, idx, res in pool.imap_unordered(
                    _call, [(func, i, c, extra) for i, c in enumerate(chunks)]):
                if status != "ok":
                    raise HarnessError("worker failed on chunk %d: %s" % (idx, res))
                results[idx] = res
        finally:
            # make workers clean their probes (atexit does not run on pool termination)
            try:
                pool.map(_noop_cleanup, range(procs * 2))
            except Exception:
                pass
    return results


def _noop_cleanup(_):
    _worker_exit()
    time.sleep(0.02)
    return 0


def split(items, n):
    """Split into n nearly equal interleaved chunks (keeps load balanced)."""
    items = list(items)
    n = max(1, min(n, len(items)))
    return [items[i::n] for i in range(n)]


def cleanup_run_dir():
    """Remove scratch directories left behind by runs that were killed (older than 6 h).
    Live runs remove their own scratch; concurrent checks must not disturb each other."""
    try:
        now = time.time()
        for name in os.listdir(RUN_DIR):
            path = os.path.join(RUN_DIR, name)
            try:
                if now - os.path.getmtime(path) > 6 * 3600:
                    shutil.rmtree(path, ignore_errors=True)
            except OSError:
                pass
    except OSError:
        pass
