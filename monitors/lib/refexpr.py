"""Independent reference reader/evaluator for rink's query expressions.

Written from docs/rink.7.adoc (plus the calibration notes in DESIGN.md §C01): it shares no
code with rink.  Values are exact (fractions.Fraction) with a dimension vector.

Grammar (tightest last):
    expr  := add
    add   := div (('+'|'-') div)*                       left-assoc
    div   := juxt (('*'|'/'|per|mod|<<|>>|and|or|xor) juxt)*   one left-assoc level
    juxt  := frac (frac | <degree-suffix>)*             juxtaposition = multiplication
    frac  := pow ['|' pow]                              does not chain
    pow   := suffix ['^' pow]                           right-assoc; '**' is '^'
    suffix:= term '%'*
    term  := number | ident | 'quoted' | '(' expr ')' | ('+'|'-') term | func args
"""
from fractions import Fraction
import sys

sys.set_int_max_str_digits(0)

SEP = "_ "
DEGREES = {
    "degC": "C", "°C": "C", "celsius": "C", "℃": "C",
    "degF": "F", "°F": "F", "fahrenheit": "F", "℉": "F",
    "degRé": "Re", "°Ré": "Re", "degRe": "Re", "°Re": "Re", "réaumur": "Re", "reaumur": "Re",
    "degRø": "Ro", "°Rø": "Ro", "degRo": "Ro", "°Ro": "Ro", "rømer": "Ro", "romer": "Ro",
    "degDe": "De", "°De": "De", "delisle": "De",
    "degN": "N", "°N": "N", "degnewton": "N",
}
FUNCS1 = ["sqrt", "exp", "ln", "log2", "log10", "sin", "cos", "tan", "asin", "acos", "atan",
          "sinh", "cosh", "tanh", "asinh", "acosh", "atanh"]
FUNCS2 = ["log", "hypot", "atan2"]
KEYWORD_OPS = {"mod": "mod", "and": "and", "or": "or", "xor": "xor", "per": "/"}


class SyntaxErr(Exception):
    pass


class Undefined(Exception):
    """Mathematically undefined (division by zero, 0^negative, bit ops on non-integers...)."""


class DimErr(Exception):
    """Dimensional algebra demands refusal."""


class OutOfScope(Exception):
    """The reference has no opinion (float functions, non-integer exponents, too large...)."""


def tokenize(s):
    toks = []
    i, n = 0, len(s)
    while i < n:
        c = s[i]
        if c in " \t":
            i += 1
            continue
        if c.isdigit() or c == ".":
            j, val = _number(s, i)
            toks.append(("num", val))
            i = j
            continue
        if c == "'":
            j = s.find("'", i + 1)
            if j < 0:
                raise SyntaxErr("unterminated quote")
            toks.append(("quote", s[i + 1:j]))
            i = j + 1
            continue
        if c == '"':
            j = s.find('"', i + 1)
            if j < 0:
                raise SyntaxErr("unterminated dquote")
            toks.append(("ident", s[i + 1:j]))
            i = j + 1
            continue
        if s.startswith("**", i):
            toks.append(("op", "^"))
            i += 2
            continue
        if s.startswith("<<", i) or s.startswith(">>", i):
            toks.append(("op", s[i:i + 2]))
            i += 2
            continue
        if s.startswith("->", i):
            toks.append(("op", "->"))
            i += 2
            continue
        if c == "→":
            toks.append(("op", "->"))
            i += 1
            continue
        if c == "−":
            toks.append(("op", "-"))
            i += 1
            continue
        if c in "|∕":
            toks.append(("op", "|"))
            i += 1
            continue
        if c in "+-*/^(),=%;:":
            toks.append(("op", c))
            i += 1
            continue
        # identifier: first char anything else, then alnum / _ / $
        j = i + 1
        while j < n and (s[j].isalnum() or s[j] in "_$"):
            j += 1
        word = s[i:j]
        i = j
        if word in DEGREES:
            toks.append(("deg", DEGREES[word]))
        elif word in KEYWORD_OPS:
            toks.append(("op", KEYWORD_OPS[word]))
        elif word in ("to", "in"):
            toks.append(("op", "->"))
        else:
            toks.append(("ident", word))
    toks.append(("eof", None))
    return toks


def _digits(s, i, allowed):
    out = []
    n = len(s)
    while i < n:
        c = s[i]
        if c in allowed:
            out.append(c)
        elif c in SEP:
            pass
        else:
            break
        i += 1
    return "".join(out), i


def _number(s, i):
    n = len(s)
    if s[i] == "0" and i + 1 < n and s[i + 1] in "xob":
        kind = s[i + 1]
        allowed = {"x": "0123456789abcdefABCDEF", "o": "01234567", "b": "01"}[kind]
        ds, j = _digits(s, i + 2, allowed)
        if not ds:
            raise SyntaxErr("radix literal without digits")
        return j, Fraction(int(ds, {"x": 16, "o": 8, "b": 2}[kind]))
    dec = "0123456789"
    if s[i] == ".":
        ip, j = "0", i
    else:
        ip, j = _digits(s, i, dec)
    fp = None
    if j < n and s[j] == ".":
        fp, j = _digits(s, j + 1, dec)
        if not fp:
            raise SyntaxErr("no digits after decimal point")
    ex = None
    if j < n and s[j] in "eE":
        k = j + 1
        if k < n and s[k] in "eE":
            k += 1
        sign = 1
        if k < n and s[k] in "+-":
            sign = -1 if s[k] == "-" else 1
            k += 1
        ds, k2 = _digits(s, k, dec)
        if not ds:
            raise SyntaxErr("no digits after exponent")
        ex = sign * int(ds)
        j = k2
    val = Fraction(int(ip))
    if fp is not None:
        val += Fraction(int(fp), 10 ** len(fp))
    if ex is not None:
        if abs(ex) > 100000:
            raise OutOfScope("huge literal exponent")
        val *= Fraction(10) ** ex
    return j, val


STOP_JUXT = {"*", "/", ",", "=", "+", "-", "->", ")", "<<", ">>", "mod", "and", "or", "xor"}
DIV_OPS = {"*", "/", "mod", "<<", ">>", "and", "or", "xor"}


class Parser:
    def __init__(self, toks):
        self.toks = toks
        self.i = 0

    def peek(self):
        return self.toks[self.i]

    def next(self):
        t = self.toks[self.i]
        if t[0] != "eof":
            self.i += 1
        return t

    def expr(self):
        return self.eq()

    def eq(self):
        left = self.add()
        if self.peek() == ("op", "="):
            self.next()
            right = self.add()
            return ("eq", left, right)
        return left

    def add(self):
        left = self.div()
        while self.peek() in (("op", "+"), ("op", "-")):
            op = self.next()[1]
            right = self.div()
            left = ("bin", op, left, right)
        return left

    def div(self):
        left = self.juxt()
        while self.peek()[0] == "op" and self.peek()[1] in DIV_OPS:
            op = self.next()[1]
            right = self.juxt()
            left = ("bin", op, left, right)
        return left

    def juxt(self):
        terms = [self.frac()]
        while True:
            t = self.peek()
            if t[0] == "eof" or (t[0] == "op" and t[1] in STOP_JUXT):
                break
            if t[0] == "deg":
                self.next()
                terms = [("deg", t[1], _mul(terms))]
                continue
            terms.append(self.frac())
        return _mul(terms)

    def frac(self):
        left = self.pow()
        if self.peek() == ("op", "|"):
            self.next()
            right = self.pow()
            return ("bin", "|", left, right)
        return left

    def pow(self):
        left = self.suffix()
        if self.peek() == ("op", "^"):
            self.next()
            right = self.pow()
            return ("bin", "^", left, right)
        return left

    def suffix(self):
        left = self.term()
        while self.peek() == ("op", "%"):
            self.next()
            left = _mul([left, ("unit", "percent")])
        return left

    def term(self):
        t = self.next()
        if t[0] == "num":
            return ("num", t[1])
        if t[0] == "quote":
            return ("quote", t[1])
        if t[0] == "ident":
            name = t[1]
            if name in FUNCS1 or name in FUNCS2:
                if self.peek() == ("op", "("):
                    self.next()
                    args = []
                    while True:
                        if self.peek() == ("op", ")"):
                            self.next()
                            break
                        args.append(self.expr())
                        if self.peek() == ("op", ","):
                            self.next()
                        elif self.peek() != ("op", ")"):
                            raise SyntaxErr("expected , or )")
                    return ("call", name, args)
                return ("call", name, [self.pow()])
            if self.peek() == ("ident", "of"):
                self.next()
                return ("of", name, self.juxt())
            return ("unit", name)
        if t == ("op", "+"):
            return ("pos", self.term())
        if t == ("op", "-"):
            return ("neg", self.term())
        if t == ("op", "("):
            e = self.expr()
            if self.next() != ("op", ")"):
                raise SyntaxErr("expected )")
            return e
        if t == ("op", "%"):
            return ("unit", "percent")
        raise SyntaxErr("expected term, got %r" % (t,))


def _mul(terms):
    if len(terms) == 1:
        return terms[0]
    return ("mul", list(terms))


def parse(text):
    p = Parser(tokenize(text))
    e = p.expr()
    if p.peek()[0] != "eof":
        raise SyntaxErr("trailing tokens: %r" % (p.peek(),))
    return e


# ------------------------------------------------------------------------------
# evaluation: values are (Fraction, dims) with dims a dict base->int without zeros

BIT_BUDGET = 1 << 18


class Val:
    __slots__ = ("v", "d", "f", "nan")

    def __init__(self, v, d=None):
        self.v = v
        self.d = d or {}
        self.f = False      # value came from a machine float (outside the exact fragment)
        self.nan = False

    def key(self):
        return (self.v, tuple(sorted(self.d.items())))


def dmul(a, b, sign=1):
    out = dict(a)
    for k, p in b.items():
        q = out.get(k, 0) + sign * p
        if q:
            out[k] = q
        else:
            out.pop(k, None)
    return out


def dpow(a, n):
    if n == 0:
        return {}
    return {k: p * n for k, p in a.items()}


def _size(fr):
    return fr.numerator.bit_length() + fr.denominator.bit_length()


def fpow(base, e):
    """base ** e for integer e with an explicit size guard."""
    if base == 0:
        if e < 0:
            raise Undefined("zero to a negative power")
        return Fraction(1) if e == 0 else Fraction(0)
    if _size(base) * abs(e) > BIT_BUDGET * 4:
        raise OutOfScope("result too large for the reference")
    return base ** e


def trunc_div(a, b):
    q = a / b
    n, d = q.numerator, q.denominator
    t = abs(n) // d
    return -t if n < 0 else t


def evaluate(e, lookup=None):
    """lookup(name) -> Val or None (unknown).  Raises Undefined / DimErr / OutOfScope.
    A result carries .f = True when a machine float took part (roots); its value is then only
    meaningful up to float precision and callers compare with a tolerance."""
    MAX_BITS_SEEN[0] = 0
    FLOAT_SEEN[0] = False
    r = _evaluate(e, lookup)
    if r.f:
        FLOAT_SEEN[0] = True
    return r


MAX_BITS_SEEN = [0]      # largest intermediate (numerator+denominator bits) of the current evaluation
FLOAT_SEEN = [False]     # a machine float (root, float-valued unit) took part somewhere in the current evaluation


def _flt(res, *ops):
    if res.f or any(o.f for o in ops):
        res.f = True
        FLOAT_SEEN[0] = True
    b = res.v.numerator.bit_length() + res.v.denominator.bit_length()
    if b > MAX_BITS_SEEN[0]:
        MAX_BITS_SEEN[0] = b
    return res


def _evaluate(e, lookup=None):
    k = e[0]
    if k == "num":
        return Val(e[1])
    if k == "unit":
        if lookup is None:
            raise OutOfScope("identifier without environment")
        v = lookup(e[1])
        if v is None:
            raise OutOfScope("unknown name %s" % e[1])
        return v
    if k == "quote":
        return Val(Fraction(1), {e[1]: 1})
    if k == "pos":
        return _evaluate(e[1], lookup)
    if k == "neg":
        a = _evaluate(e[1], lookup)
        return _flt(Val(-a.v, a.d), a)
    if k == "mul":
        acc = Val(Fraction(1))
        for t in e[1]:
            b = _evaluate(t, lookup)
            acc = _flt(Val(acc.v * b.v, dmul(acc.d, b.d)), acc, b)
            if _size(acc.v) > BIT_BUDGET * 8:
                raise OutOfScope("too large")
        return acc
    if k == "eq":
        return _evaluate(e[2], lookup)
    if k == "bin":
        op = e[1]
        a = _evaluate(e[2], lookup)
        b = _evaluate(e[3], lookup)
        if op == "*":
            return _flt(Val(a.v * b.v, dmul(a.d, b.d)), a, b)
        if op in ("/", "|"):
            if b.v == 0:
                raise Undefined("division by zero")
            return _flt(Val(a.v / b.v, dmul(a.d, b.d, -1)), a, b)
        if op in ("+", "-"):
            if a.d != b.d:
                raise DimErr("sum of different dimensionalities")
            return _flt(Val(a.v + b.v if op == "+" else a.v - b.v, a.d), a, b)
        if op == "mod":
            if a.d != b.d:
                raise DimErr("mod of different dimensionalities")
            if b.v == 0:
                raise Undefined("mod by zero")
            if a.f or b.f:
                raise OutOfScope("float mod")
            return Val(a.v - b.v * trunc_div(a.v, b.v), a.d)
        if op == "^":
            if b.d:
                raise DimErr("exponent with dimension")
            if b.v.denominator != 1:
                if b.v.numerator == 1:
                    n = b.v.denominator
                    for p in a.d.values():
                        if p % n:
                            raise DimErr("root must give integer dimensions")
                    if a.v < 0:
                        raise Undefined("root of negative")
                    if abs(n) >= 1 << 31:
                        raise OutOfScope("root degree")
                    try:
                        fv = float(a.v) ** (1.0 / n)
                        r = Val(Fraction(fv), {kk: p // n for kk, p in a.d.items()})
                    except (OverflowError, ValueError, ZeroDivisionError):
                        raise OutOfScope("root out of float range")
                    r.f = True           # rink computes roots in machine floats
                    FLOAT_SEEN[0] = True
                    return r
                if a.d:
                    raise DimErr("non-integer power of dimensioned value")
                raise OutOfScope("non-integer exponent")
            n = b.v.numerator
            if abs(n) >= 1 << 31:
                raise OutOfScope("exponent beyond rink's documented limit")
            return _flt(Val(fpow(a.v, n), dpow(a.d, n)), a, b)
        if op in ("<<", ">>"):
            if b.d:
                raise DimErr("shift count with dimension")
            if b.v.denominator != 1:
                raise Undefined("non-integer shift count")
            n = b.v.numerator
            if abs(n) >= 1 << 31:
                raise OutOfScope("shift beyond rink's documented limit")
            if abs(n) > BIT_BUDGET * 4:
                raise OutOfScope("too large")
            f = Fraction(2) ** (n if op == "<<" else -n)
            return _flt(Val(a.v * f, a.d), a)
        if op in ("and", "or", "xor"):
            if a.d or b.d:
                raise DimErr("bit operator on dimensioned value")
            if a.f or b.f:
                raise OutOfScope("float bit operator")
            if a.v.denominator != 1 or b.v.denominator != 1:
                raise Undefined("bit operator on non-integers")
            x, y = a.v.numerator, b.v.numerator
            r = x & y if op == "and" else (x | y if op == "or" else x ^ y)
            return Val(Fraction(r))
        raise OutOfScope("operator %s" % op)
    raise OutOfScope("node %s" % k)
