"""C11 — printed expressions re-parse to the same expression.

Round-trip monitor: trees are obtained by parsing fully parenthesised text with the real parser
(so only parser-producible trees are judged), printed by the real Display / ExprReply / serde
paths, re-parsed by the real parser, and compared structurally (serde JSON of the trees)."""
import itertools
import json
import random
import sys

from lib.common import Part, Run, panic_sig
from lib.probe import shard_map, split, worker_probe, nproc, HarnessError

BIN = ["+", "-", "*", "/", "|", "^", "=", "mod", "<<", ">>", "and", "or", "xor"]
UNARY = ["neg", "pos"]
DEGS = ["degC", "°F", "reaumur", "degRo", "delisle", "degN"]
CALL1 = ["sqrt", "ln"]
CALL2 = ["atan2", "log"]
LEAVES = ["a", "b", "c", "'q'", "2", "1.5", "1e15", '"in"', '"to"', '"per"', "meter", '"number2.5can"',
          # quote literals whose contents need the lexer's escapes: apostrophe, line feed, tab
          "'it\\'s'", "'\\''", "'a\\nb'", "'a\\tb'"]
KINDS = ([("bin", o) for o in BIN] + [("mul2", None), ("mul3", None)] + [("un", u) for u in UNARY]
         + [("deg", d) for d in DEGS[:2]] + [("of", None)] + [("call1", c) for c in CALL1[:1]]
         + [("call2", c) for c in CALL2[:1]])
ALLKINDS = ([("bin", o) for o in BIN] + [("mul2", None), ("mul3", None)] + [("un", u) for u in UNARY]
            + [("deg", d) for d in DEGS] + [("of", None)] + [("call1", c) for c in CALL1]
            + [("call2", c) for c in CALL2])


def arity(kind):
    return {"bin": 2, "mul2": 2, "mul3": 3, "un": 1, "deg": 1, "of": 1, "call1": 1, "call2": 2}[kind[0]]


def build(kind, kids):
    """fully parenthesised text for a node with given child texts"""
    k, o = kind
    p = ["(%s)" % c for c in kids]
    if k == "bin":
        return "%s %s %s" % (p[0], o, p[1])
    if k in ("mul2", "mul3"):
        return " ".join(p)
    if k == "un":
        return ("-" if o == "neg" else "+") + p[0]
    if k == "deg":
        return "%s %s" % (p[0], o)
    if k == "of":
        return "prop of %s" % p[0]
    if k == "call1":
        return "%s(%s)" % (o, kids[0])
    if k == "call2":
        return "%s(%s, %s)" % (o, kids[0], kids[1])
    raise ValueError(kind)


def label(kind):
    return kind[0] if kind[1] is None else "%s:%s" % kind


def has_bad_node(j):
    if isinstance(j, dict):
        if j.get("type") in ("error", "date"):
            return True
        return any(has_bad_node(v) for v in j.values())
    if isinstance(j, list):
        return any(has_bad_node(v) for v in j)
    return False


def inexact_literal(j):
    """a constant whose printed form is approximate (excluded by the statement)"""
    if isinstance(j, dict):
        if j.get("type") == "const" and j["value"].get("approxValue") is not None:
            return True
        return any(inexact_literal(v) for v in j.values())
    if isinstance(j, list):
        return any(inexact_literal(v) for v in j)
    return False


def contains_odd_name(j):
    if isinstance(j, dict):
        if j.get("type") == "unit" and node_label(j) != "unit":
            return True
        return any(contains_odd_name(v) for v in j.values())
    if isinstance(j, list):
        return any(contains_odd_name(v) for v in j)
    return False


def node_label(j):
    t = j.get("type")
    if t == "binop":
        return "binop:" + j["op"]
    if t == "unaryop":
        return "unaryop:" + str(j["op"])
    if t == "call":
        return "call"
    if t == "unit":
        n = j["name"]
        plain = n and (n[0].isalpha() or n[0] == "_") and all(c.isalnum() or c in "_$" for c in n) and \
            n not in ("in", "to", "per", "mod", "and", "or", "xor", "of")
        return "unit" if plain else "unit:keyword-or-nonidentifier"
    return t


def children(j):
    t = j.get("type")
    if t == "binop":
        return [j["left"], j["right"]]
    if t == "unaryop":
        return [j["expr"]]
    if t == "mul":
        return j["exprs"]
    if t == "of":
        return [j["expr"]]
    if t == "call":
        return j["args"]
    return []


def divergence(a, b):
    """signature of the topmost node of `a` whose printed form re-parsed differently"""
    if a == b:
        return None
    ca, cb = children(a), children(b)
    if node_label(a) == node_label(b) and len(ca) == len(cb) and \
            {k: v for k, v in a.items() if k not in ("left", "right", "expr", "exprs", "args")} == \
            {k: v for k, v in b.items() if k not in ("left", "right", "expr", "exprs", "args")}:
        diffs = [i for i, (x, y) in enumerate(zip(ca, cb)) if x != y]
        if len(diffs) == 1:
            sub = divergence(ca[diffs[0]], cb[diffs[0]])
            # the child itself re-parsed differently: blame the deepest single culprit
            if sub is not None and node_label(ca[diffs[0]]) == node_label(cb[diffs[0]]):
                return sub
        return {"parent": node_label(a), "children": [node_label(c) for c in ca],
                "first_differing_child": diffs[0] if diffs else None}
    # the root changed kind: report this node with its children kinds
    return {"parent": node_label(a), "children": [node_label(c) for c in ca], "reparsed_as": node_label(b)}


def judge(part, probe, text, tag):
    part.evaluations += 1
    r = probe.request({"op": "parse", "q": text}, timeout=30)
    if "timeout" in r or "died" in r:
        part.violation({"kind": "no_reply_on_parse_print"}, {"text": text[:300]}, "")
        return
    if "panic" in r:
        part.violation(panic_sig(r["panic"]), {"text": text, "panic": r["panic"]}, "panic while printing/re-parsing")
        return
    e1 = r["e1"]
    if not r["eof1"] or has_bad_node(e1) or inexact_literal(e1):
        part.count("input_not_a_clean_expression")
        return
    part.count("trees")
    if contains_odd_name(e1):
        # a unit name that is a keyword / not an identifier is printed bare: one defect class,
        # judged as a whole (the same tree shapes are exercised with plain names as well)
        bad = (r["e2"] != e1 or not r["eof2"] or r["e3"] != e1 or not r["eof3"] or not r["serde_ok"] or r["e4"] != e1)
        if bad:
            part.violation({"kind": "print_reparse_differs", "cause": "unit_name_printed_unquoted"},
                           {"input": text[:300], "printed": r["printed"][:300]},
                           "a unit name that is a query keyword or not an identifier is printed bare")
        else:
            part.count("roundtrip_ok")
            part.seen(tag)
        return
    ok = True
    for route, tree, eof, printed in (("display", r["e2"], r["eof2"], r["printed"]),
                                      ("exprreply", r["e3"], r["eof3"], r["er_text"])):
        if tree != e1 or not eof:
            sig = divergence(e1, tree) or {"parent": node_label(e1), "leftover_tokens": True}
            if not eof and tree == e1:
                sig = {"parent": node_label(e1), "leftover_tokens": True}
            sig = dict(sig, kind="print_reparse_differs", route=route)
            part.violation(sig, {"input": text[:300], "printed": printed[:300], "tree": e1, "reparsed": tree, "eof": eof},
                           "printed expression does not parse back to the same tree")
            ok = False
    if not r["serde_ok"] or (r["e4"] != e1):
        sig = divergence(e1, r["e4"]) if r["serde_ok"] and isinstance(r["e4"], dict) else None
        sig = dict(sig or {"parent": node_label(e1), "children": [node_label(c) for c in children(e1)]},
                   kind="serde_roundtrip_differs", error=str(r.get("serde_err"))[:40])
        part.violation(sig, {"input": text[:300], "printed": r["printed"][:300], "serde_err": r.get("serde_err")},
                       "definition serialised for exchange does not deserialise to the same expression")
        ok = False
    if ok:
        part.count("roundtrip_ok")
        part.seen(tag)
        part.sample({"input": text[:100], "printed": r["printed"][:100]})


def work(idx, chunk, seed):
    probe = worker_probe()
    part = Part()
    for text, tag in chunk:
        judge(part, probe, text, tag)
    return part.export()


def leaf_cycle():
    while True:
        for x in ["a", "b", "c", "d", "e", "f", "g", "h"]:
            yield x


def depth1(kind, leaves):
    return build(kind, [next(leaves) for _ in range(arity(kind))])


def gen_exhaustive(tier):
    cases = []
    # leaves alone and every kind over every leaf in every position
    for lf in LEAVES:
        cases.append((lf, "leaf|" + lf))
    for kind in ALLKINDS:
        n = arity(kind)
        for combo in itertools.product(LEAVES[:7] if n > 1 else LEAVES, repeat=n) if n <= 2 else \
                itertools.product(["a", "2", "'q'", '"in"'], repeat=n):
            cases.append((build(kind, list(combo)), "d1|%s|%s" % (label(kind), "leaves")))
    # (parent, child kinds in every position): children are depth-1 nodes or leaves
    kinds2 = ALLKINDS if tier == "thorough" else KINDS
    opts = [None] + list(kinds2)
    for parent in ALLKINDS:
        n = arity(parent)
        for combo in itertools.product(opts, repeat=n):
            if n == 3 and sum(1 for c in combo if c is not None) > (3 if tier == "thorough" else 2):
                continue
            lv = leaf_cycle()
            kids = [next(lv) if c is None else depth1(c, lv) for c in combo]
            cases.append((build(parent, kids),
                          "d2|%s|%s" % (label(parent), ",".join("leaf" if c is None else label(c) for c in combo))))
    # grandparent chains: (g, position, parent, position, child)
    chain_kinds = ALLKINDS if tier == "thorough" else KINDS
    for g in chain_kinds:
        for gp in range(arity(g)):
            for p in chain_kinds:
                for pp in range(arity(p)):
                    for c in chain_kinds:
                        lv = leaf_cycle()
                        ctext = depth1(c, lv)
                        pk = [next(lv) for _ in range(arity(p))]
                        pk[pp] = ctext
                        ptext = build(p, pk)
                        gk = [next(lv) for _ in range(arity(g))]
                        gk[gp] = ptext
                        cases.append((build(g, gk), "d3|%s@%d|%s@%d|%s" % (label(g), gp, label(p), pp, label(c))))
    return cases


def gen_random(rng, n, maxdepth):
    out = []

    def tree(d):
        if d == 0 or rng.random() < 0.25:
            return rng.choice(LEAVES)
        k = rng.choice(ALLKINDS)
        return build(k, [tree(d - 1) for _ in range(arity(k))])
    for _ in range(n):
        t = tree(rng.randrange(2, maxdepth + 1))
        if len(t) < 3000:
            out.append((t, "rand|" + t))
    return out


def bundled_definitions(run, probe):
    """every bundled definition and substance property expression through the DefEntry JSON round trip"""
    for source in ("bundled", "currency_units"):
        r = probe.request({"op": "defs_roundtrip", "source": source}, timeout=300)
        if "entries" not in r:
            raise HarnessError("defs_roundtrip failed: %r" % (r,))
        for e in r["entries"]:
            if not e["exprs"]:
                continue
            if any(inexact_literal(x["ast"]) for x in e["exprs"]):
                run.count("excluded:literal_prints_inexactly")
                continue
            run.evaluations += 1
            if e["ok"]:
                run.count("bundled_definition_roundtrip_ok")
                run.seen("def|%s|%s" % (source, e["name"]))
                continue
            # which expression of the entry is responsible, and why
            culprit = None
            for ex in e["exprs"]:
                names = []

                def walk(j):
                    if isinstance(j, dict):
                        if j.get("type") == "unit" and node_label(j) != "unit":
                            names.append(j["name"])
                        for v in j.values():
                            walk(v)
                    elif isinstance(j, list):
                        for v in j:
                            walk(v)
                walk(ex["ast"])
                if names:
                    culprit = ("unit_name_printed_unquoted", sorted(set(names)))
                    break
            if culprit:
                run.violation({"kind": "definition_serde_roundtrip_fails", "cause": culprit[0]},
                              {"source": source, "name": e["name"], "names": culprit[1], "err": e["err"],
                               "exprs": [x["text"] for x in e["exprs"]]},
                              "bundled definition does not survive serialisation: a unit name that is a query keyword "
                              "or not an identifier is printed bare")
            else:
                run.violation({"kind": "definition_serde_roundtrip_fails", "cause": "structure", "name": e["name"]},
                              {"source": source, "name": e["name"], "err": e["err"], "exprs": [x["text"] for x in e["exprs"]],
                               "after": e["after"]},
                              "bundled definition does not survive serialisation")


def run(tier, seed):
    run = Run("C11", tier, seed, "exploration", floor=500)
    run.rule = ("trees obtained by parsing fully parenthesised text: every node kind (13 binary operators, products of 2-3 "
                "factors, unary signs, 6 temperature suffixes, `of`, calls of arity 1-2) over every leaf kind, every "
                "(parent, child kinds) combination, every (grandparent, parent, child) chain in every position, seeded "
                "random deeper trees, and every bundled definition / substance property through DefEntry JSON; three "
                "routes: Display, ExprReply tokens joined by spaces, ExprString serde; non-trivial = distinct tree shape "
                "(tag) that round-tripped")
    run.assumptions = ["ExprReply token lists are joined with single spaces (no consumer in the repository renders them otherwise)",
                       "date literals, error nodes and literals that print inexactly are excluded as the statement says"]
    probe = worker_probe()
    bundled_definitions(run, probe)
    rng = random.Random(seed)
    cases = gen_exhaustive(tier)
    run.extra_cov["bounded_exhaustive_cases"] = len(cases)
    cases += gen_random(rng, 3000 if tier == "quick" else 3000000, 5 if tier == "quick" else 8)
    run.exhaustive = False
    for res in shard_map(work, split(cases, nproc() * 4), (seed,)):
        run.merge(res)
    return run.finish()


if __name__ == "__main__":
    from lib.common import tier_seed
    a = tier_seed()
    sys.exit(run(a.tier, a.seed))
