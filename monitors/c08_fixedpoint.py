"""C08 — the loaded database is a fixed point of its own definitions.

Invariant monitor over the loaded registry (probe `dump`) plus re-evaluation of every stored
definition by rink itself (`evaldefs`) and, as a second opinion, by the independent evaluator."""
import json
import sys
from fractions import Fraction

from lib import refexpr as R
from lib import rinkast
from lib.common import Run, panic_sig
from lib.probe import worker_probe, HarnessError
from lib.registry import Registry, num_val, dims_key


def canon(d):
    return json.dumps(d, sort_keys=True, ensure_ascii=False)


def eval_quantity(ast, reg):
    k = ast[0]
    if k == "unit":
        n = ast[1]
        if n in reg.base_units:
            return {n: 1}
        if n in reg.quantity_dims:
            return dict(reg.quantity_dims[n])
        raise R.OutOfScope("no quantity or base unit " + n)
    if k == "num":
        if ast[1] == 1:
            return {}
        raise R.OutOfScope("constant")
    if k == "mul":
        acc = {}
        for t in ast[1]:
            acc = R.dmul(acc, eval_quantity(t, reg))
        return acc
    if k == "bin" and ast[1] == "/":
        return R.dmul(eval_quantity(ast[2], reg), eval_quantity(ast[3], reg), -1)
    if k == "bin" and ast[1] == "^":
        e = ast[3]
        if e[0] == "num" and e[1].denominator == 1:
            return R.dpow(eval_quantity(ast[2], reg), int(e[1]))
        if e[0] == "neg" and e[1][0] == "num" and e[1][1].denominator == 1:
            return R.dpow(eval_quantity(ast[2], reg), -int(e[1][1]))
        raise R.OutOfScope("exponent")
    if k == "neg":
        return R.dpow(eval_quantity(ast[1], reg), -1)
    raise R.OutOfScope("quantity expr " + k)


def check_context(run, probe, cid, tag):
    d = probe.request({"op": "dump", "ctx": cid}, timeout=120)
    if "dump" not in d:
        raise HarnessError("dump failed: %r" % (d,))
    dump = d["dump"]
    reg = Registry(dump)
    ev = probe.request({"op": "evaldefs", "ctx": cid}, timeout=300)
    if "values" not in ev:
        raise HarnessError("evaldefs failed: %r" % (ev,))
    values = ev["values"]
    env = reg.env()
    if not dump["temporaries_empty"]:
        run.violation({"kind": "temporaries_left_after_load"}, {"db": tag}, "load-time temporaries not cleared")

    # 1. stored value == own definition evaluated in the loaded context
    for name, dj in sorted(dump["definitions"].items()):
        run.evaluations += 1
        if name in reg.quantity_dims and name not in dump["units"]:
            # quantity: its definition is dimensional, evaluated in the quantity namespace
            # (a name that is also a unit keeps the unit's definition: judged as a unit below)
            try:
                dims = eval_quantity(rinkast.from_json(dj["ast"]), reg)
                if dims_key(dims) != reg.quantity_dims[name]:
                    run.violation({"kind": "quantity_definition_mismatch", "name": name},
                                  {"db": tag, "name": name, "def": dj["text"], "stored": reg.quantity_dims[name]},
                                  "quantity's dimensionality differs from its definition")
                else:
                    run.count("quantity_defs_ok")
                    run.seen(tag + "|q|" + name)
            except (R.OutOfScope, rinkast.Unsupported):
                run.count("quantity_defs_not_modelled")
            continue
        if name not in dump["units"]:
            run.violation({"kind": "definition_without_unit", "name": name}, {"db": tag, "name": name}, "")
            continue
        stored = dump["units"][name]
        got = values.get(name)
        if got is None or "panic" in got:
            run.violation(panic_sig(got["panic"]) if got else {"kind": "no_evaldef"},
                          {"db": tag, "name": name}, "panic re-evaluating a stored definition")
            continue
        if "number" not in got:
            run.violation({"kind": "definition_not_reevaluable", "name": name},
                          {"db": tag, "name": name, "def": dj["text"], "got": got},
                          "stored definition no longer evaluates to a number in its own context")
            continue
        if got["number"] != stored:
            run.violation({"kind": "stored_value_not_fixed_point", "name": name},
                          {"db": tag, "name": name, "def": dj["text"], "stored": stored, "reeval": got["number"]},
                          "unit's stored value differs from what its definition evaluates to")
            continue
        run.count("fixed_point_ok")
        run.seen(tag + "|u|" + name)
        if len(run.samples) < 6 and len(dj["text"]) < 60:
            run.sample({"db": tag, "name": name, "definition": dj["text"],
                        "stored": "%s/%s %s" % (stored.get("n"), stored.get("d"), stored.get("u"))})
        # second opinion
        try:
            v = R.evaluate(rinkast.from_json(dj["ast"]), env)
            sv = num_val(stored)
            if sv.f:
                run.count("python_reeval_skipped_float")
            elif v.v != sv.v or dims_key(v.d) != dims_key(sv.d):
                run.violation({"kind": "python_reevaluation_differs", "name": name},
                              {"db": tag, "name": name, "def": dj["text"], "stored": stored,
                               "python": [str(v.v), v.d]},
                              "independent evaluation of the definition differs from the stored value")
            else:
                run.count("python_reeval_ok")
        except (R.OutOfScope, R.Undefined, R.DimErr, rinkast.Unsupported):
            run.count("python_reeval_not_modelled")

    # 2. dimensionalities are made of declared base units, no zero exponents
    for name, uj in dump["units"].items():
        for b, p in uj["u"].items():
            if b not in reg.base_units:
                run.violation({"kind": "non_base_unit_in_dimensionality", "name": name},
                              {"db": tag, "name": name, "dims": uj["u"]}, "")
            if p == 0:
                run.violation({"kind": "zero_exponent_stored", "name": name},
                              {"db": tag, "name": name, "dims": uj["u"]}, "")
    run.count("units_dims_checked", len(dump["units"]))

    # 3. quantities: one name per dimensionality and one dimensionality per name
    qnames = [n for _, n in dump["quantities"]]
    if len(set(qnames)) != len(qnames):
        dup = sorted(n for n in set(qnames) if qnames.count(n) > 1)
        run.violation({"kind": "quantity_name_with_two_dimensionalities", "names": dup}, {"db": tag}, "")
    qdims = [dims_key(dd) for dd, _ in dump["quantities"]]
    if len(set(qdims)) != len(qdims):
        run.violation({"kind": "dimensionality_with_two_quantities"}, {"db": tag}, "")
    for dd, n in dump["quantities"]:
        for b, p in dd.items():
            if b not in reg.base_units or p == 0:
                run.violation({"kind": "bad_quantity_dimensionality", "name": n}, {"db": tag, "dims": dd}, "")
    run.count("quantities_checked", len(qnames))

    # 4. alias chains end at a real definition
    for name, dj in dump["definitions"].items():
        if dj["ast"].get("type") != "unit" or name in reg.quantity_dims:
            continue
        seen = [name]
        cur = dj["ast"]["name"]
        ok = None
        for _ in range(len(dump["definitions"]) + 2):
            if cur in seen:
                ok = "cycle"
                break
            seen.append(cur)
            if cur in reg.base_units:
                ok = "base"
                break
            nd = dump["definitions"].get(cur)
            if nd is None:
                v, how = reg.lookup(cur)
                ok = "resolved:" + how[0] if v is not None else "dangling"
                break
            if nd["ast"].get("type") != "unit":
                ok = "definition"
                break
            cur = nd["ast"]["name"]
        run.count("alias_chain_end:" + str(ok).split(":")[0])
        if ok in (None, "cycle", "dangling"):
            run.violation({"kind": "alias_chain_" + str(ok), "name": name},
                          {"db": tag, "chain": seen[:20]}, "alias chain does not end at a real definition")

    # 5. docs and categories belong to existing names
    defined = (set(dump["units"]) | reg.base_units | {p for p, _ in reg.prefixes} | set(qnames)
               | set(dump["substances"]) | set(dump["category_names"]))
    for k in dump["docs"]:
        if k not in defined:
            run.violation({"kind": "doc_for_undefined_name", "name": k}, {"db": tag}, "")
    for k, cat in dump["categories"].items():
        if k not in defined:
            run.violation({"kind": "category_for_undefined_name", "name": k}, {"db": tag, "category": cat}, "")
        if cat not in dump["category_names"]:
            run.violation({"kind": "unit_in_undeclared_category", "category": cat}, {"db": tag, "name": k}, "")
    run.count("docs_checked", len(dump["docs"]))
    run.count("categories_checked", len(dump["categories"]))
    return dump, reg


def check_substances(run, probe, dump, reg, tag, source):
    """Substance properties re-evaluated from their definition expressions (python opinion)."""
    r = probe.request({"op": "defs", "source": source}, timeout=120)
    if "defs" not in r:
        raise HarnessError("defs failed: %r" % (r,))
    base_env = reg.env()
    for e in r["defs"]:
        if e["kind"] != "substance":
            continue
        sub = dump["substances"].get(e["name"])
        if sub is None:
            run.violation({"kind": "substance_missing_after_load", "name": e["name"]}, {"db": tag}, "")
            continue
        # while a substance is loaded its earlier properties are visible by name (documented
        # loader behaviour: `wavelength ... planck_constant / mass c` uses the substance's own mass)
        temps = {}

        def env(name, temps=temps):
            if name in temps:
                return temps[name]
            return base_env(name)
        meta = {p["name"]: p for p in e["extra"]["props"]}
        vals = {}
        for ex in e["exprs"]:
            pname, slot = ex["slot"].rsplit(".", 1)
            prop = sub["props"].get(pname)
            run.evaluations += 1
            if prop is None:
                run.violation({"kind": "property_missing_after_load", "name": e["name"] + "." + pname}, {"db": tag}, "")
                continue
            stored = num_val(prop[slot])
            v = None
            try:
                v = R.evaluate(rinkast.from_json(ex["ast"]), env)
            except (R.OutOfScope, R.Undefined, R.DimErr, rinkast.Unsupported):
                run.count("substance_expr_not_modelled")
            if v is not None and not stored.f:
                if v.v != stored.v or dims_key(v.d) != dims_key(stored.d):
                    run.violation({"kind": "substance_property_not_fixed_point", "name": e["name"] + "." + ex["slot"]},
                                  {"db": tag, "expr": ex["text"], "stored": prop[slot], "python": [str(v.v), v.d]}, "")
                else:
                    run.count("substance_property_ok")
                    run.seen(tag + "|s|" + e["name"] + "." + ex["slot"])
            vals[(pname, slot)] = stored
            if slot == "output" and (pname, "input") in vals:
                i, o = vals[(pname, "input")], stored
                if not i.f and not o.f and o.v != 0:
                    temps[pname] = R.Val(i.v / o.v, R.dmul(i.d, o.d, -1))
                    if o.v == 1 and not o.d:
                        temps[meta[pname]["input_name"]] = i
                    if i.v == 1 and not i.d:
                        temps[meta[pname]["output_name"]] = o


def check_prefixes(run, probe, cid, dump, reg, tag, sources):
    """Prefixes (and the long prefixes stored as units) have no entry in registry.definitions: their
    definition text comes from the parsed files.  Each is re-evaluated in the prefix namespace by the
    independent evaluator and, through its printed text, by rink itself in the loaded context."""
    stored = {}
    for name, j in dump["prefixes"]:
        stored[name] = j
    for source in sources:
        r = probe.request({"op": "defs", "source": source}, timeout=120)
        if "defs" not in r:
            raise HarnessError("defs failed: %r" % (r,))
        known = {}

        def env(name, known=known):
            return known.get(name)
        # prefixes may refer to prefixes defined anywhere in the file: iterate to a fixed point
        entries = [e for e in r["defs"] if e["kind"] == "prefix"]
        pending = list(entries)
        for _ in range(len(entries) + 1):
            rest = []
            for e in pending:
                try:
                    v = R.evaluate(rinkast.from_json(e["exprs"][0]["ast"]), env)
                    if v.d:
                        raise R.OutOfScope("dimensioned prefix")
                    known[e["name"]] = v
                except (R.OutOfScope, R.Undefined, R.DimErr, rinkast.Unsupported):
                    rest.append(e)
            if len(rest) == len(pending):
                break
            pending = rest
        for e in entries:
            run.evaluations += 1
            name = e["name"]
            if name not in stored:
                run.violation({"kind": "prefix_missing_after_load", "name": name}, {"db": tag}, "")
                continue
            sj = stored[name]
            if sj.get("f") or "n" not in sj:
                continue
            sv = Fraction(int(sj["n"]), int(sj["d"]))
            if name in known:
                if known[name].v != sv:
                    run.violation({"kind": "prefix_value_not_fixed_point", "name": name},
                                  {"db": tag, "definition": e["exprs"][0]["text"], "stored": str(sv), "python": str(known[name].v)},
                                  "a prefix's stored value differs from what its definition evaluates to")
                    continue
                run.count("prefix_python_ok")
            else:
                run.count("prefix_not_modelled")
            # rink's own evaluation of the printed definition in the loaded context
            a = probe.request({"op": "eval", "ctx": cid, "q": "(%s)" % e["exprs"][0]["text"], "spans": False, "json": False}, timeout=30)
            rep = a.get("r") or {}
            if rep.get("kind") == "number" and rep["value"]["raw"] and not rep["value"]["raw"].get("f"):
                raw = rep["value"]["raw"]
                if Fraction(int(raw["n"]), int(raw["d"])) != sv or raw["u"]:
                    run.violation({"kind": "prefix_value_not_fixed_point", "name": name},
                                  {"db": tag, "definition": e["exprs"][0]["text"], "stored": str(sv), "rink_eval": raw},
                                  "a prefix's stored value differs from what its definition evaluates to in the loaded context")
                    continue
                run.count("prefix_rink_reeval_ok")
            if e["extra"].get("is_long"):
                uj = dump["units"].get(name)
                if uj is None or uj.get("f") or Fraction(int(uj["n"]), int(uj["d"])) != sv or uj["u"]:
                    run.violation({"kind": "long_prefix_unit_differs_from_prefix", "name": name},
                                  {"db": tag, "unit": uj, "prefix": str(sv)}, "")
                    continue
            run.seen(tag + "|p|" + name)


def run(tier, seed):
    run = Run("C08", tier, seed, "exploration", floor=2000)
    run.rule = ("every entry of the loaded bundled database (and of bundled+currency overlay): stored value vs "
                "re-evaluation of its own definition by rink and by the independent evaluator; dimensionality, "
                "quantity, alias-chain, doc/category invariants; repeated loads compared byte for byte; "
                "non-trivial = distinct (database, entry) whose definition was re-evaluated and compared")
    run.assumptions = ["the currency overlay is exercised with the repository's snapshot (tests/currency.snapshot.json)"]
    run.exhaustive = True
    probe = worker_probe()
    reloads = 3 if tier == "quick" else 60
    dumps = []
    for variant, steps in (("bundled", [{"kind": "text", "source": "bundled"}, {"kind": "dates"}]),
                           ("bundled+currency", [{"kind": "text", "source": "bundled"}, {"kind": "dates"},
                                                 {"kind": "currency"}])):
        first = None
        for i in range(reloads):
            r = probe.request({"op": "load", "steps": steps}, timeout=300)
            if "ctx" not in r:
                raise HarnessError("load failed: %r" % (r,))
            run.evaluations += 1
            for st, res in zip(steps, r["results"]):
                if not res["ok"]:
                    run.violation({"kind": "load_error", "variant": variant, "step": st["kind"]},
                                  {"result": res}, "bundled data does not load cleanly")
                if res.get("diag"):
                    run.violation({"kind": "load_diagnostic", "variant": variant, "step": st["kind"]},
                                  {"diag": res["diag"][:500]}, "loader printed a warning for bundled data")
            cid = r["ctx"]
            if i == 0:
                dump, reg = check_context(run, probe, cid, variant)
                check_substances(run, probe, dump, reg, variant, "bundled")
                check_prefixes(run, probe, cid, dump, reg, variant,
                               ["bundled"] + (["currency_units"] if variant != "bundled" else []))
                first = canon(dump)
                run.extra_cov.setdefault("database_sizes", {})[variant] = {
                    "units": len(dump["units"]), "definitions": len(dump["definitions"]),
                    "quantities": len(dump["quantities"]), "substances": len(dump["substances"]),
                    "prefixes": len(dump["prefixes"]), "base_units": len(dump["base_units"])}
            else:
                d = probe.request({"op": "dump", "ctx": cid}, timeout=120)
                if canon(d["dump"]) != first:
                    run.violation({"kind": "two_loads_differ", "variant": variant}, {"reload": i},
                                  "two loads of the same text give different databases")
                else:
                    run.count("reload_identical")
            probe.request({"op": "dropctx", "ctx": cid})
    return run.finish()


if __name__ == "__main__":
    from lib.common import tier_seed
    a = tier_seed()
    sys.exit(run(a.tier, a.seed))
