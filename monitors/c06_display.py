"""C06 — displayed value x displayed unit = computed quantity.

Monitor over recorded replies: every displayed number (structured NumberParts and the rendered
token stream) is read back — numeral by the independent numeral reader, unit names by the
name-resolution model — and multiplied out against the exact quantity."""
import random
import sys
from fractions import Fraction

from lib import refexpr as R
from lib import parts as P
from lib.common import Part, Run, panic_sig
from lib.probe import shard_map, split, worker_probe, nproc
from lib.registry import Registry, dims_key, render_name, num_val, KEYWORDS

_REG = None


def get_reg(probe):
    global _REG
    if _REG is None:
        d = probe.request({"op": "dump", "ctx": probe.ctx("bundled")}, timeout=120)
        _REG = Registry(d["dump"])
    return _REG


def lit(fr):
    if fr.denominator == 1:
        return "(%d)" % fr.numerator if fr >= 0 else "(-%d)" % -fr.numerator
    if fr < 0:
        return "(-%d/%d)" % (-fr.numerator, fr.denominator)
    return "(%d/%d)" % (fr.numerator, fr.denominator)


def report(part, problems, wit, where):
    for kind, detail in problems:
        part.violation({"kind": kind, "where": where}, dict(wit, detail=detail),
                       "displayed numeral x factor x unit does not give the computed quantity")
    return not problems


def split_spans(spans, sep_kind, sep_text=None):
    out, cur = [], []
    for k, t in spans:
        if k == sep_kind and (sep_text is None or t == sep_text):
            out.append(cur)
            cur = []
        else:
            cur.append((k, t))
    out.append(cur)
    return out


def judge(part, probe, reg, query, expect_val=None, tag="", base=10):
    """expect_val: R.Val of the left-hand side when the reference knows it (conversions)."""
    part.evaluations += 1
    r = probe.eval(query, timeout=30, json=False)
    if "timeout" in r or "died" in r:
        part.inconclusive_event("no reply", {"query": query[:300]})
        return
    if r.get("panics"):
        p = r["panics"][0]
        part.violation(panic_sig(p), {"query": query, "panic": p}, "panic while displaying a number")
        return
    rep = r.get("r") or {}
    kind = rep.get("kind")
    wit = {"query": query[:400], "reply": (r.get("text") or "")[:300], "case": tag}
    spans = [tuple(s) for s in (r.get("spans") or [])]
    try:
        if kind == "number":
            np_ = rep["value"]
            raw = np_["raw"]
            if raw is None or raw.get("f") or "n" not in raw:
                part.count("float_reply_skipped")
                return
            q = Fraction(int(raw["n"]), int(raw["d"]))
            ok = report(part, P.check_parts(np_, reg), wit, "number.parts")
            ok &= report(part, P.check_dimension_text(np_, reg), wit, "number.dimensions")
            pr, rd = P.check_spans(spans, reg, q, raw["u"])
            ok &= report(part, pr, wit, "number.spans")
            if rd["quantity"] != np_.get("quantity"):
                ok &= report(part, [("rendered_quantity_differs", {"spans": rd["quantity"], "parts": np_.get("quantity")})],
                             wit, "number.spans")
            if ok:
                part.count("number_ok")
                part.seen("num|%s|%s" % (np_.get("unit") or np_.get("dimensions"), "approx" if np_.get("approx") else "exact"))
                part.sample({"query": query[:120], "shown": (r.get("text") or "")[:120]})
        elif kind == "conversion":
            np_ = rep["value"]
            if expect_val is None:
                part.count("conversion_without_reference")
                return
            if any(k in ("°C", "°F", "°Ré", "°Rø", "°De", "°N") for k in (np_.get("raw_unit") or {})):
                part.count("temperature_scale_skipped")
                return
            ok = report(part, P.check_parts(np_, reg, quantity=expect_val.v, qdims=expect_val.d, base=base), wit, "conversion.parts")
            pr, rd = P.check_spans(spans, reg, expect_val.v, expect_val.d, base=base,
                                   float_result=bool(np_.get("raw") and np_["raw"].get("f")))
            ok &= report(part, pr, wit, "conversion.spans")
            rdm = np_.get("raw_dimensions")
            if rdm is not None and dims_key(rdm) != dims_key(expect_val.d):
                ok &= report(part, [("conversion_dimensions_not_those_of_result", {"shown": rdm, "result": expect_val.d})],
                             wit, "conversion.dimensions")
            ok &= report(part, P.check_dimension_text(np_, reg), wit, "conversion.dimensions")
            if ok:
                part.count("conversion_ok")
                part.count("ok:" + tag)
                part.seen("conv|%s|%s|%s|%s" % (np_.get("unit"), np_.get("factor"), np_.get("divfactor"),
                                                "approx" if np_.get("approx") else "exact"))
                part.sample({"query": query[:120], "shown": (r.get("text") or "")[:120]})
        elif kind in ("unitlist", "duration"):
            if kind == "unitlist":
                entries = rep["list"]
                groups = split_spans([s for s in spans if s[0] != "ListBegin"], "ListSep")
            else:
                entries = [rep[f] for f in ("years", "months", "weeks", "days", "hours", "minutes", "seconds")]
                groups = None
            ok = True
            shown = 0
            for e in entries:
                raw = e.get("raw")
                if raw is None:
                    continue            # the constant "0 month" placeholder
                part_v = Fraction(int(raw["n"]), int(raw["d"]))
                name = list(raw["u"].items())
                if len(name) != 1:
                    ok &= report(part, [("list_entry_malformed", {"raw": raw})], wit, kind)
                    continue
                uname = name[0][0]
                val, how = reg.lookup(uname)
                shown_units = P.structured_units(e)
                if val is None or val.f:
                    raise P.Unjudgeable("list unit %s" % uname)
                qv = part_v * val.v
                ok &= report(part, P.check_parts(e, reg, quantity=qv, qdims=val.d, list_entry=True), wit, kind + ".parts")
                shown += 1
            if groups is not None:
                # rendered stream: one group per entry (last group carries the quantity in parentheses)
                ents = [e for e in entries if e.get("raw") is not None]
                if len(groups) == len(ents):
                    for g, e in zip(groups, ents):
                        raw = e["raw"]
                        uname = list(raw["u"])[0]
                        val, _ = reg.lookup(uname)
                        qv = Fraction(int(raw["n"]), int(raw["d"])) * val.v
                        pr, _ = P.check_spans(g, reg, qv, val.d, list_entry=True)
                        ok &= report(part, pr, wit, kind + ".spans")
                else:
                    part.count("span_groups_mismatch")
            if kind == "duration":
                ok &= report(part, P.check_parts(rep["raw"], reg), wit, "duration.raw")
            if ok:
                part.count(kind + "_ok")
                part.seen(kind + "|" + ",".join(str(P.structured_units(e)) for e in entries if e.get("raw"))[:200] + query[:50])
        elif kind == "def":
            np_ = rep.get("value")
            if np_ is None:
                part.count("def_without_value")
                return
            raw = np_.get("raw")
            if raw is None or raw.get("f") or "n" not in raw:
                part.count("float_reply_skipped")
                return
            ok = report(part, P.check_parts(np_, reg), wit, "def.parts")
            ok &= report(part, P.check_dimension_text(np_, reg), wit, "def.dimensions")
            if expect_val is not None:
                got = Fraction(int(raw["n"]), int(raw["d"]))
                if got != expect_val.v or dims_key(raw["u"]) != dims_key(expect_val.d):
                    ok &= report(part, [("definition_value_not_that_of_unit", {"raw": raw, "unit": str(expect_val.v)})],
                                 wit, "def.value")
            if ok:
                part.count("def_ok")
                part.seen("def|" + query)
        elif kind and kind.startswith("err"):
            part.count("error_reply:" + tag)
        else:
            part.count("other_reply:%s" % kind)
    except P.Unjudgeable as e:
        part.count("unjudgeable:" + str(e).split("'")[0][:40])
    except (R.OutOfScope, R.Undefined) as e:
        part.count("unjudgeable:reference")


def base_product(dims):
    num = " ".join(("%s^%d" % (render_name(b), e) if e != 1 else render_name(b)) for b, e in sorted(dims.items()) if e > 0)
    den = " ".join(("%s^%d" % (render_name(b), -e) if e != -1 else render_name(b)) for b, e in sorted(dims.items()) if e < 0)
    s = num or "1"
    return "(%s / (%s))" % (s, den) if den else "(%s)" % s


def judge_substance(part, probe, reg, sname, rng):
    """substance properties as displayed: `k substance` (every property scaled by k) and `<amount> substance` (the other
    side of every property the amount conforms with), each against the registry's own numbers"""
    sub = reg.substances[sname]
    rs = render_name(sname)
    amt = num_val(sub["amount"])
    if rs is None or sname in KEYWORDS or amt.f or amt.d or amt.v != 1:
        part.count("substance_skipped")
        return
    names = []
    for pr in sub["props"].values():
        names += [pr["input_name"], pr["output_name"]]
    k = Fraction(rng.randrange(1, 10 ** 4), rng.choice([1, 1, 2, 3, 8, 10, 1000]))
    jobs = [("%s %s" % (lit(k), rs) if rng.random() < 0.7 else rs, None)]
    if jobs[0][0] == rs:
        k = Fraction(1)
    dimmed = [(pn, pr) for pn, pr in sub["props"].items() if pr["input"]["u"] and pr["output"]["u"]
              and names.count(pr["input_name"]) == 1 and names.count(pr["output_name"]) == 1]
    if dimmed:
        pn, pr = rng.choice(dimmed)
        side = rng.choice(["input", "output"])
        jobs.append(("%s %s %s" % (lit(k), base_product(num_val(pr[side]).d), rs), (pn, side)))
    for q, how in jobs:
        part.evaluations += 1
        r = probe.eval(q, timeout=30, spans=False, json=False)
        if "timeout" in r or "died" in r:
            part.inconclusive_event("no reply", {"query": q[:300]})
            continue
        if r.get("panics"):
            part.violation(panic_sig(r["panics"][0]), {"query": q, "panic": r["panics"][0]}, "panic while displaying a substance")
            continue
        rep = r.get("r") or {}
        if rep.get("kind") != "substance" or rep.get("name") != sub["pname"]:
            part.count("substance_other_reply")
            continue
        ok = True
        for shown in rep["properties"]:
            want = None
            if how is None:
                meta = sub["props"].get(shown["name"])
                if meta is None:
                    continue
                i, o = num_val(meta["input"]), num_val(meta["output"])
                if i.f or o.f or i.v == 0:
                    continue
                want, wd = k * o.v / i.v, R.dmul(o.d, i.d, -1)
            else:
                pn, side = how
                meta = sub["props"][pn]
                i, o = num_val(meta["input"]), num_val(meta["output"])
                if i.f or o.f or i.v == 0 or o.v == 0 or dims_key(i.d) == dims_key(o.d):
                    continue
                if side == "input" and shown["name"] == meta["output_name"]:
                    want, wd = o.v * k / i.v, o.d
                elif side == "output" and shown["name"] == meta["input_name"]:
                    want, wd = i.v * k / o.v, i.d
                else:
                    continue
            try:
                problems = P.check_parts(shown["value"], reg, quantity=want, qdims=wd)
            except (P.Unjudgeable, R.OutOfScope):
                part.count("unjudgeable:substance")
                continue
            ok &= report(part, problems, {"query": q, "property": shown["name"], "reply": (r.get("text") or "")[:300]},
                         "substance." + ("scaled" if how is None else "amount"))
        if ok:
            part.count("substance_ok")
            part.seen("subst|%s|%s" % (sname, "scaled" if how is None else how[1]))


# ------------------------------------------------------------------ workloads

def work_units(idx, chunk, seed):
    """(name, k, scaling, power) cases: every unit x magnitudes x powers"""
    probe = worker_probe()
    reg = get_reg(probe)
    part = Part()
    for (name, k, sc, pw, form) in chunk:
        rn = render_name(name)
        if rn is None or name in KEYWORDS:
            part.count("unrenderable_name")
            continue
        if form == "def":
            v = reg.lookup_exact(name)
            judge(part, probe, reg, rn if name not in ("units", "factorize", "search") else "(%s)" % rn,
                  None if (v is None or v.f) else v, "def")
            continue
        c = Fraction(10) ** k * sc
        q = "%s %s" % (lit(c), rn) if pw == 1 else "%s %s^%d" % (lit(c), rn, pw)
        judge(part, probe, reg, q, None, "unit-magnitude")
    return part.export()


def work_random(idx, _chunk, seed, n):
    probe = worker_probe()
    reg = get_reg(probe)
    part = Part()
    rng = random.Random((seed << 9) ^ (idx * 65537 + 11))
    env = reg.env()
    bases = sorted(reg.base_units)
    decomp = list(reg.decomposition.items())
    classes = {k: [x for x in v if render_name(x) and x not in KEYWORDS and reg.lookup_exact(x).v > 0]
               for k, v in reg.dim_classes().items()}
    classes = {k: v for k, v in classes.items() if len(v) >= 2 and k}
    ckeys = sorted(classes)
    snames = sorted(reg.substances)
    for _ in range(n):
        r = rng.random()
        if rng.random() < 0.04 and snames:
            judge_substance(part, probe, reg, rng.choice(snames), rng)
            continue
        if r < 0.35:
            # base-unit products around every derived-unit regrouping: dims of unit^p times a near miss
            dk, uname = rng.choice(decomp)
            p = rng.choice([-1, 1, 2, 1, 1])
            dims = {b: e * p for b, e in dk}
            for _ in range(rng.choice([0, 0, 1, 2])):
                b = rng.choice(bases)
                dims[b] = dims.get(b, 0) + rng.choice([-1, 1, 2, -2])
            dims = {b: e for b, e in dims.items() if e and abs(e) <= 4}
            c = Fraction(10) ** rng.randrange(-30, 31) * rng.choice([Fraction(1), Fraction(999, 1000), Fraction(1000, 999),
                                                                     Fraction(rng.randrange(1, 10 ** 6), rng.randrange(1, 10 ** 4))])
            if rng.random() < 0.2:
                c = -c
            num = " ".join("%s^%d" % (b, e) if e != 1 else b for b, e in sorted(dims.items()) if e > 0)
            den = " ".join("%s^%d" % (b, -e) if e != -1 else b for b, e in sorted(dims.items()) if e < 0)
            q = "%s %s" % (lit(c), num or "1")
            if den:
                q += " / (%s)" % den
            judge(part, probe, reg, q, None, "base-unit-product")
        elif r < 0.5:
            # up to four base units with exponents -3..3
            dims = {}
            for b in rng.sample(bases, rng.randrange(1, 5)):
                dims[b] = rng.choice([-3, -2, -1, 1, 2, 3])
            c = Fraction(rng.randrange(1, 10 ** 9), rng.randrange(1, 10 ** 9)) * Fraction(10) ** rng.randrange(-20, 21)
            num = " ".join("%s^%d" % (b, e) if e != 1 else b for b, e in sorted(dims.items()) if e > 0)
            den = " ".join("%s^%d" % (b, -e) if e != -1 else b for b, e in sorted(dims.items()) if e < 0)
            q = "%s %s" % (lit(c), num or "1")
            if den:
                q += " / (%s)" % den
            judge(part, probe, reg, q, None, "random-base-product")
        elif r < 0.8:
            # conversions with constant factors / compound targets
            k = rng.choice(ckeys)
            a, b = rng.choice(classes[k]), rng.choice(classes[k])
            c = Fraction(rng.randrange(1, 10 ** 6), rng.randrange(1, 10 ** 3))
            if rng.random() < 0.2:
                c = -c
            src = "%s %s" % (lit(c), render_name(a))
            tb = render_name(b)
            form = rng.choice(["plain", "mul", "div", "neg", "frac", "pow", "prefixed", "plural", "prod", "constpow", "constpow",
                               "constpow2", "divpow", "sum", "diff", "summixed", "modop", "bitop", "rootconst", "fracpowconst"])
            if form == "mul":
                tgt = "%d %s" % (rng.randrange(2, 100), tb)
            elif form == "div":
                tgt = "%s/%d" % (tb, rng.randrange(2, 100))
            elif form == "neg":
                tgt = "-%s" % tb
            elif form == "frac":
                tgt = "%d|%d %s" % (rng.randrange(1, 20), rng.randrange(2, 20), tb)
            elif form == "pow":
                src = "%s %s^2" % (lit(c), render_name(a))
                tgt = "%s^2" % tb
            elif form == "sum":
                # constants combined by + / - inside the target: 1 ft + 2 ft, 3 ft - 1 ft
                tgt = "%d %s + %d %s" % (rng.randrange(1, 9), tb, rng.randrange(1, 9), tb)
            elif form == "diff":
                k1 = rng.randrange(3, 12)
                tgt = "%d %s - %d %s" % (k1, tb, rng.randrange(1, k1), tb)
            elif form == "summixed":
                tgt = "%s + %d %s" % (tb, rng.randrange(1, 9), tb)
            elif form == "modop":
                # the constant of a remainder: 7 u mod 4 u is 3 u
                k1, k2 = rng.randrange(5, 40), rng.randrange(2, 9)
                if k1 % k2 == 0:
                    k1 += 1
                tgt = rng.choice(["%d %s mod %d %s" % (k1, tb, k2, tb), "(%d mod %d) %s" % (k1, k2, tb)])
            elif form == "bitop":
                k1, k2 = rng.randrange(1, 16), rng.randrange(1, 16)
                op = rng.choice(["and", "or", "xor"])
                if (op == "and" and k1 & k2 == 0) or (op == "xor" and k1 ^ k2 == 0):
                    k1, k2, op = 6, 3, "or"
                tgt = "(%d %s %d) %s" % (k1, op, k2, tb)
            elif form == "rootconst":
                # an exact root of a constant and its units: (4 u^2)^(1|2) is 2 u
                k, pw = rng.choice([(4, 2), (9, 2), (8, 3), (16, 2), (27, 3), (1, 2)])
                src = "%s %s" % (lit(c), render_name(a))
                tgt = "(%d %s^%d)^(1|%d)" % (k, tb, pw, pw)
            elif form == "fracpowconst":
                tgt = "%s %s" % (rng.choice(["4^1.5", "4^0.5", "9^1.5", "16^0.25", "8^(1|3)"]), tb)
            elif form == "constpow":
                # a constant under an exponent: (10 cm)^2, (3 ft)^-1, (2 in)^3
                pw = rng.choice([2, 3, -1, -2])
                src = "%s %s^%d" % (lit(c), render_name(a), pw)
                tgt = "(%d %s)^%d" % (rng.choice([2, 3, 10, 12]), tb, pw)
            elif form == "constpow2":
                pw = rng.choice([2, 3])
                src = "%s %s^%d" % (lit(c), render_name(a), pw)
                tgt = "%d^%d %s^%d" % (rng.choice([2, 3, 10]), pw, tb, pw)
            elif form == "divpow":
                pw = rng.choice([2, 3])
                src = "%s %s^%d" % (lit(c), render_name(a), pw)
                tgt = "(%s/%d)^%d" % (tb, rng.choice([2, 4, 10]), pw)
            elif form == "prefixed" and b.isalpha():
                tgt = rng.choice(["kilo", "milli", "mega", "micro", "centi"]) + b
            elif form == "plural" and b.isalpha():
                tgt = b + "s"
            elif form == "prod":
                k2 = rng.choice(ckeys)
                a2, b2 = rng.choice(classes[k2]), rng.choice(classes[k2])
                src = "%s %s %s" % (lit(c), render_name(a), render_name(a2))
                tgt = "%s %s" % (tb, render_name(b2))
            else:
                tgt = tb
            try:
                lv = R.evaluate(R.parse(src), env)
            except (R.OutOfScope, R.Undefined, R.DimErr, R.SyntaxErr):
                part.count("reference_abstains")
                continue
            judge(part, probe, reg, "%s -> %s" % (src, tgt), lv, "conversion:" + form)
        elif r < 0.87:
            # number-format conversions of values with units: the numeral (in the requested base / format) must be that of
            # the value in the unit that is printed next to it
            if rng.random() < 0.5:
                u = rng.choice(["m", "g", "kg", "byte", "bit", "s", "W", "J", "Hz", "N", "m^2", "m^3", "kg^2", "A", "K", "mol", "liter", "Pa"])
                c = Fraction(rng.choice([1, 5, 255, 4096, 5000, 65535, 10 ** 6, 123456789, rng.randrange(1, 10 ** 9)])) * \
                    Fraction(10) ** rng.choice([-9, -6, -3, -2, 0, 0, 0, 3, 4, 6, 9, 12])
                if rng.random() < 0.3:
                    c = c / rng.choice([3, 7, 8, 16, 1000, 1024])
                src = "%s %s" % (lit(c), u)
            else:
                k = rng.choice(ckeys)
                a = rng.choice(classes[k])
                c = Fraction(rng.randrange(1, 10 ** 6), rng.choice([1, 1, 2, 8, 10, 16, 1000, rng.randrange(1, 10 ** 3)]))
                src = "%s %s" % (lit(c), render_name(a))
            if rng.random() < 0.2:
                src = "-" + src
            bs = rng.choice([2, 3, 8, 10, 12, 16, 16, 20, 36])
            fmt = rng.choice(["", "", "digits %d " % rng.randrange(1, 40), "digits ", "sci ", "eng ", "frac "])
            if bs == 10:
                tgt = (fmt.strip() or "digits 15")
            else:
                tgt = fmt + rng.choice(["base %d" % bs] + ({16: ["hex", "hexadecimal"], 8: ["oct", "octal"], 2: ["bin", "binary"]}.get(bs, [])))
            try:
                lv = R.evaluate(R.parse(src), env)
            except (R.OutOfScope, R.Undefined, R.DimErr, R.SyntaxErr):
                part.count("reference_abstains")
                continue
            # fraction-form numerals are decimal whatever base was requested (same reading as C05)
            judge(part, probe, reg, "%s -> %s" % (src, tgt), lv, "conversion:numberformat", base=10 if fmt == "frac " else bs)
        else:
            # unit lists and durations
            k = rng.choice(ckeys)
            names = sorted(rng.sample(classes[k], min(len(classes[k]), rng.randrange(2, 5))),
                           key=lambda n: reg.lookup_exact(n).v, reverse=True)
            c = Fraction(rng.randrange(1, 10 ** 9), rng.randrange(1, 10 ** 5))
            if k == (("s", 1),) and rng.random() < 0.5:
                judge(part, probe, reg, "%s s" % lit(c), None, "duration")
            else:
                judge(part, probe, reg, "%s %s -> %s" % (lit(c), render_name(names[0]),
                                                        ";".join(render_name(n) for n in names)), None, "unitlist")
    return part.export()


def run(tier, seed):
    run = Run("C06", tier, seed, "exploration", floor=500)
    run.rule = ("every database unit x magnitudes 10^k*{0.999,1,1000/999} (k=-30..30) x powers 1..3, definitions of every "
                "unit, base-unit products around each derived-unit regrouping (powers -1,1,2 and near misses), random "
                "products of up to four base units, conversions with constant/negative/fractional factors, prefixed, plural "
                "and compound targets (constants under powers and roots, sums, mod / bit operators), number-format conversions of "
                "values with units (bases 2..36, digits, sci, eng, frac), unit lists and durations, `k substance` and "
                "`<amount> substance` replies; non-trivial = distinct (printed unit string, factor, "
                "numeral kind) combination whose display was multiplied out against the exact quantity")
    run.assumptions = ["printed unit names are resolved by the independent name-resolution model (C07 checks it against rink)",
                       "temperature-scale pseudo-units are C10's business; pure-constant targets (`10 -> 2`) show no unit and are not generated",
                       "fraction-form numerals are decimal whatever base was requested (as in C05); approximations of float-valued "
                       "results may sit a relative 1e-12 to either side before truncation"]
    probe = worker_probe()
    reg = get_reg(probe)
    rng = random.Random(seed)
    names = reg.all_names()
    scalings = [Fraction(999, 1000), Fraction(1), Fraction(1000, 999)]
    cases = [(n, 0, Fraction(1), 1, "def") for n in names]
    if tier == "thorough":
        for n in names:
            for k in range(-30, 31):
                for sc in scalings:
                    for pw in (1, 2, 3):
                        cases.append((n, k, sc, pw, "mag"))
        run.exhaustive = True
        n_random = 3000000
    else:
        for n in names:
            for _ in range(10):
                cases.append((n, rng.randrange(-30, 31), rng.choice(scalings), rng.choice([1, 1, 2, 3]), "mag"))
        # the SI base/derived names get the full magnitude sweep in quick as well
        for n in ["m", "g", "kg", "s", "bit", "byte", "N", "J", "W", "Pa", "V", "ohm", "T", "F", "Hz", "A", "K", "mol", "cd",
                  "liter", "foot", "USD" if "USD" in names else "m"]:
            if n in names or n in reg.base_units:
                for k in range(-30, 31):
                    for sc in scalings:
                        cases.append((n, k, sc, 1, "mag"))
        run.exhaustive = False
        n_random = 24000
    rng.shuffle(cases)
    for res in shard_map(work_units, split(cases, nproc() * 8), (seed,)):
        run.merge(res)
    per = nproc()
    for res in shard_map(work_random, [None] * per, (seed, n_random // per + 1)):
        run.merge(res)
    run.extra_cov["unit_magnitude_cases"] = len(cases)
    return run.finish()


if __name__ == "__main__":
    from lib.common import tier_seed
    a = tier_seed()
    sys.exit(run(a.tier, a.seed))
