// One failing test per finding of the C08 hunt (see FINDINGS.md).
//   CARGO_NET_OFFLINE=true cargo test --offline -p rink-core --features bundle-files,serde_json --test hunt_c08_findings -- --test-threads=1
use rink_core::ast::Expr;
use rink_core::{Context, Value};

const SNAPSHOT: &str = include_str!("currency.snapshot.json");

fn base_ctx() -> Context {
    rink_core::simple_context().expect("definitions.units loads cleanly")
}
fn full_ctx() -> Context {
    let mut ctx = base_ctx();
    ctx.load_currency(SNAPSHOT, rink_core::CURRENCY_FILE.unwrap())
        .expect("currency overlay loads cleanly");
    ctx
}

/// F1: the entry `hg Hg` (definitions.units:4712) is stored as the substance mercury, but the
/// name `hg` evaluates to hectogram in the loaded context.
#[test]
fn f1_hg_entry_is_not_what_hg_evaluates_to() {
    let ctx = base_ctx();
    let stored = ctx.registry.substances.get("hg").expect("hg is stored as a substance");
    assert_eq!(stored.properties.name, "mercury");
    assert_eq!(ctx.registry.categories.get("hg").map(|s| &s[..]), Some("compat"));
    match ctx.eval(&Expr::new_unit("hg".to_owned())) {
        Ok(Value::Substance(s)) => assert_eq!(s.properties.name, "mercury"),
        Ok(Value::Number(n)) => panic!(
            "entry `hg` is stored as substance mercury, but `hg` evaluates to the number {:?} {:?}",
            n.value, n.unit
        ),
        other => panic!("unexpected {:?}", other.map(|_| ())),
    }
}

/// F2: the currency snapshot introduces the base unit `hash`, which is never declared.
#[test]
fn f2_snapshot_uses_undeclared_base_unit() {
    let ctx = full_ctx();
    for (name, s) in &ctx.registry.substances {
        for (pname, p) in &s.properties.properties {
            for n in [&p.input, &p.output] {
                for (b, _) in n.unit.iter() {
                    assert!(
                        ctx.registry.base_units.contains(b),
                        "{}.{} has the undeclared base unit {}", name, pname, b
                    );
                }
            }
        }
    }
}

/// F3: for a name that is both a quantity and a unit the database keeps only the unit's text;
/// the quantity `jerk ? acceleration / time` is shown as "physical quantity for ft / s^3".
#[test]
fn f3_quantity_definition_text_replaced_by_unit_of_same_name() {
    let mut ctx = base_ctx();
    let shown = rink_core::one_line(&mut ctx, "jerk").unwrap();
    assert!(
        shown.contains("acceleration / time"),
        "quantity jerk is defined as `acceleration / time`, database says: {}", shown
    );
}

/// F4: `!category japanese` is declared twice with different display names; the load reports
/// nothing and the first declaration is lost.
#[test]
fn f4_category_declared_twice_with_different_names() {
    let defs = rink_core::loader::gnu_units::parse_str(rink_core::DEFAULT_FILE.unwrap());
    let mut seen = std::collections::BTreeMap::new();
    for e in &defs.defs {
        if let rink_core::ast::Def::Category { ref display_name } = *e.def {
            if let Some(old) = seen.insert(e.name.clone(), display_name.clone()) {
                assert_eq!(
                    &old, display_name,
                    "category {} declared with two display names, loaded without a warning",
                    e.name
                );
            }
        }
    }
}
