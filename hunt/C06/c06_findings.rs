// C06: one failing test per root cause found.  Each test states the computed
// quantity with my own arithmetic and reads rink's printed text back with the
// independent reader in c06_common.
mod c06_common;
use c06_common::*;
use rink_core::*;

fn meters(ctx: &Context, v: &str) -> Q {
    read_name(ctx, "m").unwrap().scale(&lit(v))
}

fn seconds(ctx: &Context, v: &str) -> Q {
    read_name(ctx, "s").unwrap().scale(&lit(v))
}

fn conv(ctx: &mut Context, query: &str, expected: &Q, opts: &Opts) -> Result<(), String> {
    let text = one_line(ctx, query).map_err(|e| format!("`{}` => error {}", query, e))?;
    check_text(ctx, &text, expected, opts).map_err(|e| format!("`{}` => `{}` : {}", query, text, e))
}

fn list(ctx: &mut Context, query: &str, expected: &Q) -> Result<(), String> {
    let text = one_line(ctx, query).map_err(|e| format!("`{}` => error {}", query, e))?;
    check_list(ctx, &text, expected).map_err(|e| format!("`{}` => `{}` : {}", query, text, e))
}

fn report(results: Vec<Result<(), String>>) {
    let fails: Vec<String> = results.into_iter().filter_map(|r| r.err()).collect();
    for f in &fails {
        println!("VIOLATION {}", f);
    }
    assert!(fails.is_empty(), "{} violations", fails.len());
}

/// F1: `eval_unit_name` truncates the exponent of `^` to an integer.
#[test]
fn f1_noninteger_exponent_in_target() {
    let mut ctx = simple_context().unwrap();
    let o = Opts::default();
    let ten = meters(&ctx, "10");
    report(vec![
        conv(&mut ctx, "10 m -> 4^0.5 m", &ten, &o),
        conv(&mut ctx, "10 m -> 4^(1/2) m", &ten, &o),
        conv(&mut ctx, "10 m -> 8^(1/3) m", &ten, &o),
        conv(&mut ctx, "10 m -> 2^0.5 m", &ten, &o),
        conv(&mut ctx, "10 m -> (m^2)^(1/2)", &ten, &o),
        conv(&mut ctx, "10 m -> (4 m^2)^0.5", &ten, &o),
    ]);
}

/// F2: `mod`, `and`, `or`, `xor` in a target: the constant shown is the left operand.
#[test]
fn f2_mod_and_bit_operators_in_target() {
    let mut ctx = simple_context().unwrap();
    let o = Opts::default();
    let ten = meters(&ctx, "10");
    report(vec![
        conv(&mut ctx, "10 m -> 7 m mod 4 m", &ten, &o),
        conv(&mut ctx, "10 m -> (7 mod 4) m", &ten, &o),
        conv(&mut ctx, "10 m -> (6 and 3) m", &ten, &o),
        conv(&mut ctx, "10 m -> (6 or 3) m", &ten, &o),
        conv(&mut ctx, "10 m -> (6 xor 3) m", &ten, &o),
    ]);
}

/// F3: float-valued quantities in unit lists / durations are not split, every
/// entry repeats the whole value.
#[test]
fn f3_float_unit_lists() {
    let mut ctx = simple_context().unwrap();
    let mut five = seconds(&ctx, "5");
    five.exact = None;
    let mut three = seconds(&ctx, "3");
    three.exact = None;
    let mut h = seconds(&ctx, "5400");
    h.exact = None;
    let mut m = meters(&ctx, "1.5");
    m.exact = None;
    report(vec![
        list(&mut ctx, "hypot(3 s, 4 s)", &five),
        list(&mut ctx, "sqrt(9) s", &three),
        list(&mut ctx, "sqrt(2.25 hour^2) -> hour;min", &h),
        list(&mut ctx, "sqrt(2.25 m^2) -> m;cm;mm", &m),
    ]);
}

/// F4: unit-list entries get an SI prefix glued onto the name the user typed.
#[test]
fn f4_list_entries_with_glued_prefix() {
    let mut ctx = simple_context().unwrap();
    let one = seconds(&ctx, "1");
    let ds = seconds(&ctx, "150");
    let hs = seconds(&ctx, "150");
    let km = meters(&ctx, "2500000");
    let mm = meters(&ctx, "0.0005");
    report(vec![
        list(&mut ctx, "1 s -> ms;us;ns", &one),
        list(&mut ctx, "1500 ds -> ds;s", &ds),
        list(&mut ctx, "1.5 hs -> hs;hs", &hs),
        list(&mut ctx, "2500 km -> km;m", &km),
        list(&mut ctx, "0.5 mm -> cm;mm", &mm),
    ]);
}

/// F5: the fraction form of a numeral is always decimal, whatever base was asked for.
#[test]
fn f5_fraction_form_ignores_base() {
    let mut ctx = simple_context().unwrap();
    let v = meters(&ctx, "255");
    let v20 = meters(&ctx, "20");
    let hex = Opts { base: 16, ..Opts::default() };
    let bin = Opts { base: 2, ..Opts::default() };
    // for these two my reader is told to read the fraction in the requested base as well
    let frac_in_base = |ctx: &mut Context, query: &str, base: u32, expected: &Q| -> Result<(), String> {
        let text = one_line(ctx, query).map_err(|e| e)?;
        let p = parse_printed_base(&text, 10).map_err(|e| format!("`{}` => `{}` : {}", query, text, e))?;
        let exact = p.exact.clone().unwrap();
        let (n, d) = match exact.split_once('/') {
            Some((n, d)) => (n.to_string(), d.to_string()),
            None => (exact.clone(), "1".to_string()),
        };
        let rd = |s: &str| parse_numeral(s, base).map(|x| x.value);
        match (rd(&n), rd(&d)) {
            (Ok(n), Ok(d)) => {
                let unit = printed_unit(ctx, &p)?;
                let shown = n / d * unit.exact.unwrap();
                if &shown == expected.exact.as_ref().unwrap() {
                    Ok(())
                } else {
                    Err(format!("`{}` => `{}` : {} read in base {} is {:e}, computed {:e}", query, text, exact, base, rat_f64(&shown), expected.approx))
                }
            }
            _ => Err(format!("`{}` => `{}` : {} is not a base-{} numeral", query, text, exact, base)),
        }
    };
    report(vec![
        conv(&mut ctx, "255 m -> frac hex", &v, &hex),
        conv(&mut ctx, "255 m -> frac base 2", &v, &bin),
        frac_in_base(&mut ctx, "255 m -> sci base 2", 2, &v),
        frac_in_base(&mut ctx, "20 m -> base 5 ft", 5, &v20),
    ]);
}

/// F6: `-> property of N substance`: the amount N is neither applied to the
/// numeral nor shown, and the printed name is only the property.
#[test]
fn f6_property_of_amount_target() {
    let mut ctx = simple_context().unwrap();
    // 100 g/mol
    let q = read_name(&ctx, "g").unwrap().mul(&read_name(&ctx, "mol").unwrap().powi(-1)).scale(&lit("100"));
    // read "molar_mass" the most charitable way: the molar mass of iron
    let iron = &ctx.registry.substances["iron"].properties.properties["molar_mass"];
    let mm = numeric_to_q(&iron.output).mul(&numeric_to_q(&iron.input).powi(-1));
    let mut results = vec![];
    for query in ["100 g/mol -> molar_mass of iron", "100 g/mol -> 2 molar_mass of iron", "100 g/mol -> molar_mass of 2 iron"] {
        let text = one_line(&mut ctx, query).unwrap();
        let p = parse_printed(&text).unwrap();
        let n = parse_numeral(p.approx.as_ref().unwrap(), 10).unwrap();
        let f = p.factor.as_ref().map(|f| lit(f)).unwrap_or_else(|| ri(1));
        let shown = mm.scale(&(n.value * f));
        let ok = (shown.approx - q.approx).abs() < 1e-6 * q.approx;
        results.push(if ok {
            Ok(())
        } else {
            Err(format!("`{}` => `{}` : numeral*factor*molar_mass(iron) = {:e} kg/mol, computed {:e} kg/mol", query, text, shown.approx, q.approx))
        });
    }
    report(results);
}

/// F7: in bases above 14 the exponent marker `e` is itself a digit.
#[test]
fn f7_exponent_marker_is_a_digit() {
    let mut ctx = simple_context().unwrap();
    let text = one_line(&mut ctx, "1e10 m -> hex ft").unwrap();
    // "approx. 7.a38870e8 foot (length)": every character of the numeral is a hex digit
    let numeral = text.trim_start_matches("approx. ").split(' ').next().unwrap().to_string();
    assert!(numeral.chars().all(|c| c == '.' || c.is_digit(16)), "{}", text);
    let as_hex = parse_numeral(&numeral, 16).unwrap(); // my reader does not split exponents in base >= 15
    let foot = read_name(&ctx, "foot").unwrap();
    let shown = rat_f64(&as_hex.value) * foot.approx;
    println!("`1e10 m -> hex ft` => `{}` : hex numeral {} = {} ; times foot = {:e} m, computed 1e10 m", text, numeral, rat_f64(&as_hex.value), shown);
    assert!((shown - 1e10).abs() < 1e4, "VIOLATION");
}
