// Minimal reproductions of the C02 findings. Every test asserts what the property
// requires, so every test FAILS on the current code.
//
// CARGO_NET_OFFLINE=true cargo test --offline -p rink-core --features bundle-files --test c02_findings -- --nocapture

use rink_core::output::QueryReply;
use std::collections::BTreeMap;

fn ctx() -> rink_core::Context {
    let mut ctx = rink_core::simple_context().unwrap();
    ctx.use_humanize = false;
    ctx.save_previous_result = true;
    ctx
}

fn dims(d: &rink_core::types::Dimensionality) -> BTreeMap<String, i64> {
    d.iter().map(|(k, v)| (k.to_string(), *v)).collect()
}

/// F1: a conversion whose target contains an exact root loses the unit.
#[test]
fn f1_conversion_to_root_target_drops_unit() {
    let mut ctx = ctx();
    for q in ["1 m -> (ft^2)^(1/2)", "9 m^2 -> (m^6)^(1/3)", "1 m^2 -> (m^4)^0.5"] {
        let reply = rink_core::eval(&mut ctx, q).unwrap();
        println!("{} => {}", q, reply);
        if let QueryReply::Conversion(c) = &reply {
            let shown = c.value.raw_unit.as_ref().map(dims).unwrap_or_default();
            assert!(
                !shown.is_empty(),
                "`{}` printed `{}`: the value is a length/area but no unit is shown (unit map {:?})",
                q,
                reply,
                shown
            );
        } else {
            panic!("not a conversion");
        }
    }
}

/// F2: repeated `ans * ans` overflows the i64 exponents: panic (debug) or a product of
/// positive powers that has negative powers (release).
#[test]
fn f2_exponent_overflow_through_ans() {
    let mut ctx = ctx();
    rink_core::eval(&mut ctx, "(m 'foo')^2147483647").unwrap();
    for i in 0..34 {
        let r = std::panic::catch_unwind(std::panic::AssertUnwindSafe(|| rink_core::eval(&mut ctx, "ans * ans")));
        match r {
            Err(_) => panic!("step {}: `ans * ans` panicked (exponent addition overflow)", i),
            Ok(Err(e)) => {
                println!("step {} refused: {}", i, e);
                return; // a refusal is fine
            }
            Ok(Ok(QueryReply::Number(p))) => {
                let d = dims(&p.raw_value.as_ref().unwrap().unit);
                println!("step {} => {:?}", i, d);
                assert!(
                    d.values().all(|v| *v > 0),
                    "step {}: the square of a value with positive exponents has exponents {:?}",
                    i,
                    d
                );
            }
            Ok(Ok(other)) => panic!("unexpected reply {}", other),
        }
    }
}

/// F3: the unit shown for a result merges distinct base units that share a display name.
#[test]
fn f3_display_name_collisions_with_quoted_units() {
    let mut ctx = ctx();
    let mut failures = vec![];
    for (q, must_not_be) in [
        ("m * 'meter'", "1 meter"),    // two different base units, product has two factors
        ("m / 'meter'", "1 / meter"),  // ratio of two different base units
        ("'newton' * N", "1 newton"),  // N * (other unit) is not a newton
        ("1 'N' -> 'N'", "1 newton (N)"), // the ad-hoc base unit 'N' is not the newton
    ] {
        let reply = rink_core::one_line(&mut ctx, q).unwrap();
        println!("{} => {}", q, reply);
        if reply == must_not_be {
            failures.push(format!("`{}` printed `{}`", q, reply));
        }
    }
    assert!(failures.is_empty(), "{:?}", failures);
}

/// F4: a unit list whose later member has another dimensionality is accepted when that
/// member is not a bare identifier; the member is silently dropped.
#[test]
fn f4_unit_list_member_of_other_dimensionality_accepted() {
    let mut ctx = ctx();
    // control: refused
    assert!(rink_core::one_line(&mut ctx, "1 m -> ft, s").is_err());
    for q in ["1 m -> ft, s^2", "1 m -> ft, 5 s", "1 m -> ft; (s)", "1 m -> ft, 's'"] {
        let r = rink_core::one_line(&mut ctx, q);
        println!("{} => {:?}", q, r);
        assert!(r.is_err(), "`{}` was accepted: {:?}", q, r);
    }
}
