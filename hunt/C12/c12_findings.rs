// C12 hunt: one failing test per root cause. Each test asserts what the
// property promises; every one of them fails on the tree as it is.
//
//   CARGO_NET_OFFLINE=true cargo test --offline -p rink-core \
//     --features bundle-files --test c12_findings -- --nocapture --test-threads=1
use rink_core::ast::{DefEntry, Defs};
use rink_core::loader::gnu_units;
use rink_core::Context;

/// The way cli/src/config.rs loads several files: parse each, concatenate, one load.
fn load_files(files: &[&str]) -> (Context, Result<(), String>) {
    let defs: Vec<DefEntry> = files
        .iter()
        .map(|s| gnu_units::parse_str(s).defs)
        .flatten()
        .collect();
    let mut ctx = Context::new();
    let r = ctx.load(Defs { defs });
    (ctx, r)
}

/// The way the library is used for definitions + currency: successive loads.
fn load_seq(files: &[&str]) -> (Context, Vec<Result<(), String>>) {
    let mut ctx = Context::new();
    let r = files.iter().map(|f| ctx.load_definitions(f)).collect();
    (ctx, r)
}

fn unit(ctx: &Context, name: &str) -> String {
    match ctx.registry.units.get(name) {
        Some(v) => format!("{:?}", v),
        None => "<absent>".to_string(),
    }
}

fn q(ctx: &mut Context, s: &str) -> String {
    match rink_core::one_line(ctx, s) {
        Ok(v) => v,
        Err(e) => format!("ERR {}", e),
    }
}

const BUNDLED: &str = match rink_core::DEFAULT_FILE {
    Some(s) => s,
    None => "",
};

/// F1. The order of `registry.prefixes` is the order in which the dependency
/// sort happened to reach the prefixes, and a prefixed name takes the first
/// prefix that fits. Adding an unrelated definition changes what `dat` and
/// `dau` mean in the bundled database.
#[test]
fn f1_unrelated_definition_changes_meaning_of_existing_names() {
    let (mut base, r) = load_files(&[BUNDLED]);
    assert!(r.is_ok());
    let (mut ext, r) = load_files(&["Aardvark 1 dam\n", BUNDLED]);
    assert!(r.is_ok(), "{:?}", r);
    let mut bad = vec![];
    for name in ["dat", "dau", "dam", "km"] {
        let a = q(&mut base, name);
        let b = q(&mut ext, name);
        println!("F1 {}: bundled alone: {} | with `Aardvark 1 dam`: {}", name, a, b);
        if a != b {
            bad.push(name);
        }
    }
    assert!(bad.is_empty(), "meaning of {:?} changed", bad);
}

/// F1 (generated database). Two definitions with the same right-hand side get
/// different values depending only on their own names.
#[test]
fn f1_same_definition_different_value_by_name() {
    let mut vals = vec![];
    for name in ["b0", "zz"] {
        let text = format!(
            "m !meter\na-- 10\nab-- 100\nbc 2 m\nc 3 m\naa1 abm\n{} abc\n",
            name
        );
        let (mut ctx, r) = load_files(&[&text]);
        assert!(r.is_ok());
        println!("F1 {} abc -> {} ; query abc = {}", name, unit(&ctx, name), q(&mut ctx, "abc"));
        vals.push(unit(&ctx, name));
    }
    assert_eq!(vals[0], vals[1]);
}

/// F2. References through a substance symbol or a chemical formula are not
/// dependencies for the resolver.
#[test]
fn f2_symbol_and_formula_references() {
    let mut res = vec![];
    for name in ["femass", "zfemass"] {
        let user = format!("{} molar_mass of Fe\n", name);
        let (ctx, r) = load_files(&[&user, BUNDLED]);
        println!("F2 bundled + `{}`: {:?} -> {}", user.trim(), r, unit(&ctx, name));
        res.push((r.is_ok(), unit(&ctx, name)));
    }
    let subst = "kg !kilogram\nmol !mole\ng 1|1000 kg\n!symbol hydrogen H\n!symbol oxygen O\nhydrogen {\n molar_mass const atomic_mass 1.008 g/mol\n}\noxygen {\n molar_mass const atomic_mass 15.999 g/mol\n}\n";
    for name in ["aqua_mm", "water_mm"] {
        let text = format!("{}{} molar_mass of H2O\n", subst, name);
        let (ctx, r) = load_files(&[&text]);
        println!("F2 formula {}: {:?} -> {}", name, r, unit(&ctx, name));
        res.push((r.is_ok(), unit(&ctx, name)));
    }
    assert_eq!(res[0], res[1]);
    assert_eq!(res[2], res[3]);
}

/// F3. A short prefix (or quantity) whose name equals the reference satisfies
/// the resolver, but not the evaluator, which goes on to prefix + unit or plural.
#[test]
fn f3_short_prefix_name_hides_the_real_dependency() {
    let mut res = vec![];
    for name in ["Z", "z"] {
        let text = format!("a !\nas-- 14\n{} 2 as\n", name);
        let (ctx, r) = load_files(&[&text]);
        println!("F3 {}: {:?} -> {}", name, r, unit(&ctx, name));
        res.push((r.is_ok(), unit(&ctx, name)));
    }
    // silent variant: the value stored is not what the definition means
    let text = "a !\nA !\nscm 8 a\ns 6 scm\na-- 7\nas-- 20\ncz 8 A as\n";
    let (mut ctx, r) = load_files(&[text]);
    let stored = unit(&ctx, "cz");
    let now = q(&mut ctx, "8 A as");
    println!("F3 silent: {:?} cz stored {} ; `8 A as` now = {}", r, stored, now);
    assert_eq!(res[0], res[1]);
}

/// F4. A prefix definition can only refer to prefixes, but the resolver looks
/// the name up among the units first.
#[test]
fn f4_prefix_referring_to_a_prefix_that_shares_its_name_with_a_unit() {
    let mut res = vec![];
    for name in ["mu", "ux"] {
        let text = format!("kg !kilogram\nmicro- 1e-6\nu-- micro\nu 1.66e-27 kg\n{}-- u\n", name);
        let (ctx, r) = load_files(&[&text]);
        let have = ctx.registry.prefixes.iter().any(|p| p.0 == name);
        println!("F4 {}: {:?} -> prefix loaded: {}", name, r, have);
        res.push((r.is_ok(), have));
    }
    for user in ["mc-- u\n", "v-- u\n"] {
        let (ctx, r) = load_files(&[user, BUNDLED]);
        let n = user.split('-').next().unwrap();
        println!("F4 bundled + {:?}: {:?} -> prefix loaded: {}", user, r, ctx.registry.prefixes.iter().any(|p| p.0 == n));
    }
    // false cycle: the valid unit A is dropped
    let text = "c !\nbm !\nA-- 12\nsz- A\nss 9 szbm c\nA 7 ss\n";
    let (ctx, r) = load_files(&[text]);
    println!("F4 false cycle: {:?} -> A = {}", r, unit(&ctx, "A"));
    assert_eq!(res[0], res[1]);
    assert!(r.is_ok());
}

/// F5. Successive loads: the quantity table, the prefix table and the resolver
/// only know the file being loaded.
#[test]
fn f5_successive_loads_in_dependency_order() {
    let mut failures = vec![];
    let cases: &[(&str, &str, &str)] = &[
        ("quantity", "m !meter\ns !second\nlength ? m\ntime ? s\n", "speed ? length / time\n"),
        ("prefix", "m !meter\nkilo- 1000\n", "k-- kilo\n"),
        ("new prefix on old unit", "m !meter\nfoo 3 m\n", "q-- 5\nbar 2 qfoo\n"),
        ("old prefix on new unit (a1)", "m !meter\nk-- 1000\n", "foo 3 m\na1 2 kfoo\n"),
        ("old prefix on new unit (z1)", "m !meter\nk-- 1000\n", "foo 3 m\nz1 2 kfoo\n"),
    ];
    for (what, a, b) in cases {
        let (_, one) = load_files(&[a, b]);
        let (_, seq) = load_seq(&[a, b]);
        println!("F5 {}: one load {:?} | two loads {:?}", what, one, seq.last().unwrap());
        if one.is_ok() != seq.iter().all(|r| r.is_ok()) {
            failures.push(*what);
        }
    }
    let mut ctx = rink_core::simple_context().unwrap();
    let r = ctx.load_definitions("fuel_economy ? length / volume\nmyk-- kilo\nzork 67 inch\nazork 3 kilozork\nzzork 3 kilozork\n");
    println!("F5 bundled then user file: {:?}", r);
    assert!(failures.is_empty(), "{:?}", failures);
}

/// F6. `!symbol` only applies to substances parsed from the same file, although
/// the cli concatenates the files into one load.
#[test]
fn f6_symbol_directive_in_another_file() {
    let one = "kg !kilogram\nmol !mole\n!symbol oxygen O\noxygen {\n molar_mass const atomic_mass 15.999 kg/mol\n}\n";
    let f1 = "kg !kilogram\nmol !mole\n!symbol oxygen O\n";
    let f2 = "oxygen {\n molar_mass const atomic_mass 15.999 kg/mol\n}\n";
    let (c1, r1) = load_files(&[one]);
    let (c2, r2) = load_files(&[f1, f2]);
    println!("F6 one file: {:?} {:?}", r1, c1.registry.substance_symbols);
    println!("F6 two files: {:?} {:?}", r2, c2.registry.substance_symbols);
    assert_eq!(c1.registry.substance_symbols, c2.registry.substance_symbols);
}

/// Extra. A base unit's long name colliding with another definition's name:
/// the result depends on the order, and one order gives no warning at all.
#[test]
fn extra_long_name_collision() {
    let mut res = vec![];
    for t in ["m !meter\nmeter 3 m\n", "meter 3 m\nm !meter\n"] {
        let (ctx, r) = load_files(&[t]);
        println!("EXTRA {:?}: {:?} base={:?} meter={}", t, r, ctx.registry.base_units, unit(&ctx, "meter"));
        res.push(unit(&ctx, "meter"));
    }
    assert_eq!(res[0], res[1]);
}
