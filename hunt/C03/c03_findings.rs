// C03 hunt: one failing test per finding. Each test states what the property
// requires; all of them FAIL on the current code.
mod c03;
use c03::*;
use num_traits::{One, ToPrimitive};
use rink_core::*;

fn q(ctx: &mut Context, s: &str) -> Result<String, String> {
    one_line(ctx, s)
}

/// value of the printed unit part `* f name^e ... / d name^e` (names from the registry)
fn printed_unit_value(ctx: &Context, p: &Parsed) -> Rat {
    let mut v = &p.factor / &p.div;
    for (u, e) in &p.units {
        let (uv, _) = unit_val(ctx, u).unwrap_or_else(|| panic!("printed unit {} unknown", u));
        v = v * pow_rat(&uv, *e);
    }
    v
}

// 1. mod / and / or / xor in a target: the printed constant is the left operand
#[test]
fn f1_mod_and_or_xor_in_target() {
    let mut ctx = simple_context().unwrap();
    // (7 m) mod (3 m) is 1 m, so 10 m is 10 of them
    let out = q(&mut ctx, "10 m -> (7 m) mod (3 m)").unwrap();
    let p = parse_reply(&out).unwrap();
    let x = p.exact.clone().unwrap();
    assert_eq!(x * printed_unit_value(&ctx, &p), rat(10, 1), "10 m -> (7 m) mod (3 m) printed {:?}", out);
}
#[test]
fn f1b_or_in_target() {
    let mut ctx = simple_context().unwrap();
    // (6 or 3) m is 7 m
    let out = q(&mut ctx, "14 m -> (6 or 3) m").unwrap();
    let p = parse_reply(&out).unwrap();
    let x = p.exact.clone().unwrap();
    assert_eq!(x * printed_unit_value(&ctx, &p), rat(14, 1), "14 m -> (6 or 3) m printed {:?}", out);
}
#[test]
fn f1c_named_dimensionless_operand_refused() {
    let mut ctx = simple_context().unwrap();
    // `dozen mod 5` is 2 (the query `dozen mod 5` says so); same dimensionality as 1
    assert_eq!(q(&mut ctx, "dozen mod 5").unwrap(), "2 (dimensionless)");
    let out = q(&mut ctx, "10 m -> (dozen mod 5) m");
    assert!(out.is_ok(), "10 m -> (dozen mod 5) m refused: {:?}", out);
}

// 2. non-integer exponents in a target are truncated when the printed unit is built
#[test]
fn f2_fractional_power_constant() {
    let mut ctx = simple_context().unwrap();
    let out = q(&mut ctx, "10 m -> 2^0.5 m").unwrap();
    // x is 7.07..., so the printed unit has to be 1.414... meter, not 1 meter
    let p = parse_reply(&out).unwrap();
    let x = p.approx.unwrap();
    let unit = printed_unit_value(&ctx, &p).to_f64().unwrap();
    assert!((x * unit - 10.0).abs() < 1e-4, "10 m -> 2^0.5 m printed {:?}", out);
}
#[test]
fn f2b_fractional_power_unit() {
    let mut ctx = simple_context().unwrap();
    let out = q(&mut ctx, "10 m -> (m^2)^0.5").unwrap();
    let p = parse_reply(&out).unwrap();
    assert!(!p.units.is_empty(), "10 m -> (m^2)^0.5 printed {:?} without any unit", out);
}
#[test]
fn f2c_fractional_power_zero_factor() {
    let mut ctx = simple_context().unwrap();
    let out = q(&mut ctx, "1 m -> (2^0.5 - 1) m").unwrap();
    assert!(!out.contains("* 0 "), "printed {:?}", out);
}

// 3. a sum of conformable units spelled differently is refused
#[test]
fn f3_sum_of_different_spellings() {
    let mut ctx = simple_context().unwrap();
    assert_eq!(q(&mut ctx, "1 ft + 12 inch").unwrap(), "609.6 millimeter (length)");
    let out = q(&mut ctx, "1 m -> 1 ft + 12 inch");
    assert!(out.is_ok(), "1 m -> 1 ft + 12 inch refused: {:?}", out);
}

// 4. printed names are merged/renamed by spelling: quoted base units and inline
//    definitions are confused with database units of the same (canonical) name
#[test]
fn f4_quoted_unit_renamed() {
    let mut ctx = simple_context().unwrap();
    let out = q(&mut ctx, "3 'ft' -> 'ft'").unwrap();
    // 'ft' is a fresh base unit, not the foot: `3 foot -> 'ft'` is a conformance error
    assert!(q(&mut ctx, "3 foot -> 'ft'").is_err());
    assert!(!out.contains("foot"), "3 'ft' -> 'ft' printed {:?}", out);
}
#[test]
fn f4b_inline_definition_merged_with_database_unit() {
    let mut ctx = simple_context().unwrap();
    let out = q(&mut ctx, "12 m^2 -> (foot = 2 m) ft").unwrap();
    // target is 2 m * 0.3048 m; "foot^2" is neither (0.3048 m)^2 nor (2 m)^2 times x
    assert!(!out.contains("foot^2"), "printed {:?}", out);
}

// 5. tokens after the target expression are dropped silently
#[test]
fn f5_trailing_tokens_dropped() {
    let mut ctx = simple_context().unwrap();
    // the comment is white space: the target is `ft s`, which is not a length
    let out = q(&mut ctx, "10 m -> ft /* feet */ s");
    assert!(out.is_err(), "10 m -> ft /* feet */ s printed {:?}", out);
}

// 6. `property of substance` as a target prints the bare property name
#[test]
fn f6_property_target() {
    let mut ctx = simple_context().unwrap();
    assert_eq!(q(&mut ctx, "mass of 2 liter water").unwrap(), "2 kilogram (mass)");
    let out = q(&mut ctx, "1 kg -> mass of 2 liter water").unwrap();
    // 0.5 of "mass": the unit printed does not say 2 kg anywhere
    assert!(out.contains("water") || out.contains("kilogram"), "printed {:?}", out);
}

// 7. the only float-valued unit of the database does not convert to itself
#[test]
fn f7_semitone() {
    let mut ctx = simple_context().unwrap();
    let out = q(&mut ctx, "3 semitone -> semitone").unwrap();
    assert!(out.starts_with("approx. 3 ") || out.starts_with("3 "), "printed {:?}", out);
}

// 8. with a base modifier the number is in that base, the constant of the target in decimal
#[test]
fn f8_mixed_radix() {
    let mut ctx = simple_context().unwrap();
    let out = q(&mut ctx, "255 m -> hex 16 m").unwrap();
    assert!(!out.contains("* 16 "), "printed {:?}", out);
    let _ = Rat::one();
}
