// C09 - one failing test per finding. Each test states the property clause it
// checks and uses an oracle independent of to_list()/div_rem(): BigRational
// arithmetic and an own reader of the printed text.
//
// Run: CARGO_NET_OFFLINE=true cargo test --offline -p rink-core --features bundle-files --test c09_findings -- --nocapture

use num_bigint::BigInt;
use num_rational::BigRational;
use num_traits::{One, Signed, Zero};
use rink_core::output::{NumberParts, QueryReply};
use rink_core::types::Numeric;
use rink_core::Context;
use std::str::FromStr;

fn ctx() -> Context {
    rink_core::simple_context().unwrap()
}

fn rat(n: &Numeric) -> BigRational {
    // exact rational content of a Numeric (floats are dyadic rationals)
    let (a, b) = n.to_rational();
    BigRational::new(
        BigInt::from_str(&a.to_string()).unwrap(),
        BigInt::from_str(&b.to_string()).unwrap(),
    )
}

fn r(a: i64, b: i64) -> BigRational {
    BigRational::new(BigInt::from(a), BigInt::from(b))
}

/// Reader for rink's decimal text: -12.34[56]...e7
fn parse_text(s: &str) -> Option<BigRational> {
    let mut s = s.trim().to_string();
    let mut exp: i64 = 0;
    if let Some(pos) = s.rfind('e') {
        let tail = &s[pos + 1..];
        if !tail.is_empty() && tail.trim_start_matches('-').chars().all(|c| c.is_ascii_digit()) {
            exp = tail.parse().ok()?;
            s.truncate(pos);
        }
    }
    let neg = s.starts_with('-');
    if neg {
        s.remove(0);
    }
    let (plain, rec) = if let Some(pos) = s.find('[') {
        let rest = &s[pos + 1..];
        let end = rest.find(']')?;
        let mut inner = rest[..end].to_string();
        if let Some(p) = inner.find(", period") {
            inner.truncate(p);
        }
        (s[..pos].to_string(), Some(inner))
    } else {
        (s.clone(), None)
    };
    let (ip, fp) = match plain.find('.') {
        Some(p) => (plain[..p].to_string(), plain[p + 1..].to_string()),
        None => (plain.clone(), String::new()),
    };
    let ten = BigInt::from(10);
    let mut val = BigRational::from_integer(if ip.is_empty() { BigInt::zero() } else { BigInt::from_str(&ip).ok()? });
    if !fp.is_empty() {
        val += BigRational::new(BigInt::from_str(&fp).ok()?, ten.pow(fp.len() as u32));
    }
    if let Some(rp) = rec {
        let k = rp.len() as u32;
        let rep = BigRational::new(BigInt::from_str(&rp).ok()?, ten.pow(k) - BigInt::one());
        val += rep / BigRational::from_integer(ten.pow(fp.len() as u32));
    }
    if exp >= 0 {
        val *= BigRational::from_integer(ten.pow(exp as u32));
    } else {
        val /= BigRational::from_integer(ten.pow((-exp) as u32));
    }
    Some(if neg { -val } else { val })
}

/// Reads "a unit, b unit, c unit (quantity)" -> [(a, "unit")...]
fn read_reply(s: &str) -> Vec<(BigRational, String)> {
    let body = match s.rfind(" (") {
        Some(p) => &s[..p],
        None => s,
    };
    body.split(", ")
        .map(|piece| {
            let mut w = piece.splitn(2, ' ');
            let num = parse_text(w.next().unwrap()).expect("number");
            (num, w.next().unwrap_or("").to_string())
        })
        .collect()
}

/// The value in base units that a reader gets from the printed reply, resolving
/// each printed unit name with rink itself (`<name>` typed back in as a query).
/// Err if a printed unit is unknown or is not of dimension `dim_of`.
fn reread(ctx: &mut Context, reply: &str, dim_of: &str) -> Result<BigRational, String> {
    let want = ctx.lookup(dim_of).unwrap().unit;
    let mut sum = BigRational::zero();
    for (num, unit) in read_reply(reply) {
        let u = ctx
            .lookup(&unit)
            .ok_or_else(|| format!("printed unit `{}` is not a unit rink knows", unit))?;
        if u.unit != want {
            return Err(format!(
                "printed unit `{}` is not conformable with `{}`",
                unit, dim_of
            ));
        }
        sum += num * rat(&u.value);
    }
    Ok(sum)
}

fn list_parts(ctx: &mut Context, q: &str) -> Vec<NumberParts> {
    match rink_core::eval(ctx, q).unwrap() {
        QueryReply::UnitList(l) => l.list,
        QueryReply::Duration(d) => vec![d.years, d.weeks, d.days, d.hours, d.minutes, d.seconds],
        o => panic!("unexpected reply {}", o),
    }
}

// ---------------------------------------------------------------------------
// F1: a part is reported in a unit of another dimension (ms -> "kilometer")
// ---------------------------------------------------------------------------
#[test]
fn f1_part_reported_in_foreign_unit() {
    let mut ctx = ctx();
    for (q, v_seconds) in [
        ("2 s -> ms;us", r(2, 1)),
        ("5 ms -> us;ns", r(5, 1000)),
        ("2 hour -> ms;s", r(7200, 1)),
    ] {
        let out = rink_core::one_line(&mut ctx, q).unwrap();
        println!("{} => {}", q, out);
        match reread(&mut ctx, &out, "s") {
            Ok(sum) => assert_eq!(sum, v_seconds, "{} => {}", q, out),
            Err(e) => panic!("{} => {} : {}", q, out, e),
        }
    }
}

// ---------------------------------------------------------------------------
// F2: integer parts are rescaled with an SI prefix: non-integer, truncated,
//     and often in a unit name rink does not know (megakm, kiloMB)
// ---------------------------------------------------------------------------
#[test]
fn f2_integer_parts_rescaled_by_prefix() {
    let mut ctx = ctx();
    let mut failures = vec![];
    for (q, dim) in [
        ("1 au -> km;m", "m"),
        ("1 year -> hour;second", "s"),
        ("12345 km -> km;m", "m"),
        ("1 GiB -> MB;kB;byte", "bit"),
        ("100 bit -> byte;bit", "bit"),
        ("1 lightyear -> mile;foot;inch", "m"),
    ] {
        let lhs = q.split(" -> ").next().unwrap();
        let v = match rink_core::eval(&mut ctx, &format!("{} -> {}", lhs, dim)).unwrap() {
            QueryReply::Conversion(c) => rat(&c.value.raw_value.unwrap().value),
            o => panic!("{}", o),
        };
        let out = rink_core::one_line(&mut ctx, q).unwrap();
        println!("{} => {}", q, out);
        let pieces = read_reply(&out);
        let n = pieces.len();
        for (i, (num, unit)) in pieces.iter().enumerate() {
            if i + 1 < n && !num.is_integer() {
                failures.push(format!("{} => {}: part {} `{} {}` is not an integer", q, out, i, num, unit));
            }
        }
        match reread(&mut ctx, &out, dim) {
            Ok(sum) if sum == v => {}
            Ok(sum) => failures.push(format!("{} => {}: printed parts sum to {} {}, value is {} {}", q, out, sum, dim, v, dim)),
            Err(e) => failures.push(format!("{} => {}: {}", q, out, e)),
        }
    }
    assert!(failures.is_empty(), "\n{}", failures.join("\n"));
}

#[test]
fn f2b_duration_years_rescaled() {
    let mut ctx = ctx();
    let mut failures = vec![];
    // v = 61 centuries exactly = 6100 years, 0 seconds; 1e11 s has an integer 3168 years
    for q in ["61 century", "1e11 s", "1e30 s"] {
        let out = rink_core::one_line(&mut ctx, q).unwrap();
        println!("{} => {}", q, out);
        let pieces = read_reply(&out);
        let n = pieces.len();
        for (i, (num, unit)) in pieces.iter().enumerate() {
            if i + 1 < n && !num.is_integer() {
                failures.push(format!("{} => {}: part `{} {}` is not an integer", q, out, num, unit));
            }
        }
    }
    // and the sum law, read from text: 1e30 s
    let out = rink_core::one_line(&mut ctx, "1e30 s").unwrap();
    let sum = reread(&mut ctx, &out, "s").unwrap();
    let v = BigRational::from_integer(BigInt::from(10).pow(30));
    if sum != v {
        failures.push(format!("1e30 s => {}: parts sum to {} s (off by {} s)", out, sum, (&v - &sum)));
    }
    assert!(failures.is_empty(), "\n{}", failures.join("\n"));
}

// ---------------------------------------------------------------------------
// F3: a float-valued database unit (semitone) in the list: part not floored,
//     remainder computed separately, so the parts do not add up at all
// ---------------------------------------------------------------------------
#[test]
fn f3_float_unit_parts_do_not_add_up() {
    let mut ctx = ctx();
    let semitone = rat(&ctx.lookup("semitone").unwrap().value);
    let percent = rat(&ctx.lookup("percent").unwrap().value);
    for (q, v) in [("3 -> semitone;percent", r(3, 1)), ("1 -> semitone;percent", r(1, 1))] {
        let parts = list_parts(&mut ctx, q);
        let p0 = rat(&parts[0].raw_value.as_ref().unwrap().value);
        let p1 = rat(&parts[1].raw_value.as_ref().unwrap().value);
        let sum = &p0 * &semitone + &p1 * &percent;
        println!("{} => {} semitone + {} percent = {}", q, p0, p1, sum);
        let tol = r(1, 1_000_000_000);
        assert!(p0.is_integer(), "{}: first part {} is not an integer", q, p0);
        assert!((&sum - &v).abs() < tol, "{}: parts sum to {} not {}", q, sum, v);
    }
}

// ---------------------------------------------------------------------------
// F4: the last part's "exact_value" is a silently truncated approximation
// ---------------------------------------------------------------------------
#[test]
fn f4_last_part_truncated_but_reported_exact() {
    let mut ctx = ctx();
    let q = "1 year -> day;hour;minute;second";
    let out = rink_core::one_line(&mut ctx, q).unwrap();
    println!("{} => {}", q, out);
    let parts = list_parts(&mut ctx, q);
    let last = parts.last().unwrap();
    let raw = rat(&last.raw_value.as_ref().unwrap().value);
    let shown = parse_text(last.exact_value.as_ref().unwrap()).unwrap();
    println!("raw last part = {} ; exact_value = {:?} ; approx_value = {:?}", raw, last.exact_value, last.approx_value);
    let year = rat(&ctx.lookup("year").unwrap().value);
    let sum = reread(&mut ctx, &out, "s").unwrap();
    assert_eq!(shown, raw, "exact_value {:?} is not the part's value {}", last.exact_value, raw);
    assert_eq!(sum, year);
}

// ---------------------------------------------------------------------------
// F5: negative-valued database units give parts of the opposite sign
// ---------------------------------------------------------------------------
#[test]
fn f5_negative_unit_flips_sign() {
    let mut ctx = ctx();
    for (q, positive) in [("100 K -> delisle_absolute;K", true), ("5 -> g00;percent", true)] {
        let out = rink_core::one_line(&mut ctx, q).unwrap();
        println!("{} => {}", q, out);
        for p in list_parts(&mut ctx, q) {
            let pv = rat(&p.raw_value.as_ref().unwrap().value);
            assert!(pv.is_zero() || pv.is_positive() == positive, "{} => {}: part {} has not the sign of the value", q, out, pv);
        }
    }
}
