// C17 findings: one failing test per root cause.
// Run: CARGO_NET_OFFLINE=true cargo test --offline -p rink-core --features bundle-files --test c17_findings -- --nocapture --test-threads=1

use rink_core::output::QueryReply;
use rink_core::parsing::text_query;
use rink_core::Context;

fn units_for(ctx: &Context, x: &str) -> Vec<(Option<String>, Vec<String>)> {
    let input = format!("units for {}", x);
    let mut iter = text_query::TokenIterator::new(&input).peekable();
    let q = text_query::parse_query(&mut iter);
    match ctx.eval_query(&q) {
        Ok(QueryReply::UnitsFor(r)) => r
            .units
            .into_iter()
            .map(|g| (g.category, g.units))
            .collect(),
        other => panic!("{}: {:?}", input, other.map(|r| r.to_string())),
    }
}

fn line(ctx: &Context, q: &str) -> String {
    let mut iter = text_query::TokenIterator::new(q).peekable();
    let q = text_query::parse_query(&mut iter);
    match ctx.eval_query(&q) {
        Ok(r) => r.to_string(),
        Err(e) => format!("ERR {}", e),
    }
}

fn category_of(groups: &[(Option<String>, Vec<String>)], unit: &str) -> Option<Option<String>> {
    groups
        .iter()
        .find(|(_, us)| us.iter().any(|u| u == unit))
        .map(|(c, _)| c.clone())
}

/// F1: base units that have a long name are defined inside
/// `!category base_units "SI Base Units"` (kg, s, m, A, cd, mol, K),
/// `!category base_nonsi` (sr) or `!category currencies` (EUR), but are listed
/// under "Uncategorized". Base units without a long name (radian, bit, IU)
/// are listed correctly.
#[test]
fn f1_base_unit_with_long_name_loses_its_category() {
    let ctx = rink_core::simple_context().unwrap();
    // control: works for a base unit without a long name
    assert_eq!(
        category_of(&units_for(&ctx, "angle"), "radian"),
        Some(Some("Non-SI Base Units".to_owned()))
    );
    let mut bad = vec![];
    for (x, unit, cat) in [
        ("mass", "kilogram", "SI Base Units"),
        ("time", "second", "SI Base Units"),
        ("length", "meter", "SI Base Units"),
        ("current", "ampere", "SI Base Units"),
        ("luminous_intensity", "candela", "SI Base Units"),
        ("amount", "mole", "SI Base Units"),
        ("temperature", "kelvin", "SI Base Units"),
        ("solid_angle", "steradian", "Non-SI Base Units"),
    ] {
        let got = category_of(&units_for(&ctx, x), unit);
        println!("units for {}: {} is under {:?}, defined in {:?}", x, unit, got, cat);
        if got != Some(Some(cat.to_owned())) {
            bad.push(unit);
        }
    }
    assert!(bad.is_empty(), "listed under the wrong category: {:?}", bad);
}

/// F2: a quoted (ad-hoc) base unit whose name is also the name of a real
/// unit makes `units for` list that real unit although it has a different
/// dimensionality (or list a unit that does not exist at all).
#[test]
fn f2_quoted_base_unit_lists_unit_of_other_dimensionality() {
    let ctx = rink_core::simple_context().unwrap();
    let mut bad = vec![];
    for x in ["'joule'", "'gram'", "'meter'", "'km'", "'seconds'", "'energy'", "'foo'"] {
        let got = units_for(&ctx, x);
        println!("units for {} -> {:?}", x, got);
        println!("    {}", line(&ctx, &format!("units for {}", x)));
        // Nothing in the database has the dimensionality of an ad-hoc base unit.
        if !got.is_empty() {
            bad.push(x);
        }
    }
    println!("joule is: {}", line(&ctx, "joule"));
    assert!(bad.is_empty(), "units of another dimensionality listed for {:?}", bad);
}

/// F3: a name that is both a quantity and a unit (`force` = gravity,
/// an acceleration) is silently taken as the quantity, so the answer depends
/// on how the same value is spelled.
#[test]
fn f3_unit_named_like_a_quantity() {
    let ctx = rink_core::simple_context().unwrap();
    println!("force           = {}", line(&ctx, "force"));
    println!("units for force     : {}", line(&ctx, "units for force"));
    println!("units for 1 force   : {}", line(&ctx, "units for 1 force"));
    println!("factorize force     : {}", line(&ctx, "factorize force"));
    println!("factorize 1 force   : {}", line(&ctx, "factorize 1 force"));
    println!("units for mass      : {}", &line(&ctx, "units for mass")[..60]);
    println!("units for 1 mass    : {}", &line(&ctx, "units for 1 mass")[..60]);
    assert_eq!(units_for(&ctx, "force"), units_for(&ctx, "1 force"));
    assert_eq!(line(&ctx, "factorize force"), line(&ctx, "factorize 1 force"));
}

/// F4: long prefixes are entered in the unit table without a definition, so
/// the alias filter never applies to them: `deka` (= `deca`), `µ` and `μ`
/// (= `micro`) are pure aliases and are listed by `units for 1`.
#[test]
fn f4_alias_prefixes_listed() {
    let ctx = rink_core::simple_context().unwrap();
    let all: Vec<String> = units_for(&ctx, "1").into_iter().flat_map(|(_, u)| u).collect();
    let listed: Vec<&str> = vec!["deka", "µ", "μ"]
        .into_iter()
        .filter(|a| all.iter().any(|u| u == *a))
        .collect();
    println!("deka = {}", line(&ctx, "deka"));
    // control: an ordinary dimensionless alias is filtered
    assert!(!all.iter().any(|u| u == "%")); // `% percent`
    assert!(listed.is_empty(), "aliases listed: {:?}", listed);
}

/// F5: names defined as a single identifier that only resolves through a
/// prefix (`hectare hectoare`, `Calorie kilocalorie`, `micron micrometer`)
/// are dropped as aliases although no listed unit has their value.
#[test]
fn f5_prefixed_alias_units_missing() {
    let ctx = rink_core::simple_context().unwrap();
    let mut missing = vec![];
    for (x, unit, target) in [
        ("area", "hectare", "hectoare"),
        ("energy", "Calorie", "kilocalorie"),
        ("length", "micron", "micrometer"),
    ] {
        let all: Vec<String> = units_for(&ctx, x).into_iter().flat_map(|(_, u)| u).collect();
        if !all.iter().any(|u| u == unit || u == target) {
            println!("units for {}: neither {} nor {} listed", x, unit, target);
            missing.push(unit);
        }
    }
    assert!(missing.is_empty(), "{:?}", missing);
}

/// F6: category id `japanese` is declared twice with different display
/// names; `japancup` is defined under "Japanese Measures" but is listed under
/// "Traditional Japanese Units" (the loader silently keeps the last name).
#[test]
fn f6_category_declared_twice() {
    let ctx = rink_core::simple_context().unwrap();
    let got = category_of(&units_for(&ctx, "volume"), "japancup");
    println!("japancup listed under {:?}", got);
    assert_eq!(got, Some(Some("Japanese Measures".to_owned())));
}
