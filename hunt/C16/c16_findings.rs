// Minimal reproductions for the C16 findings (each test FAILS on the current code).
// Run one with e.g.
//   CARGO_NET_OFFLINE=true cargo test --offline -p rink-core --features bundle-files \
//       --test c16_findings f1_ -- --nocapture

use rink_core::ast::Expr;
use rink_core::output::{QueryError, QueryReply};
use rink_core::types::Numeric;
use rink_core::{eval, one_line, simple_context, Value};

fn num(ctx: &mut rink_core::Context, q: &str) -> Result<(String, String), String> {
    // (exact rational as "n/d", base-unit dimensions) of a number reply
    match eval(ctx, q) {
        Ok(QueryReply::Number(p)) => {
            let n = p.raw_value.unwrap();
            let (a, b) = n.value.to_rational();
            assert!(matches!(n.value, Numeric::Rational(_)));
            Ok((format!("{}/{}", a, b), format!("{:?}", n.unit)))
        }
        Ok(other) => Err(format!("unexpected reply {}", other)),
        Err(e) => Err(format!("{}", e)),
    }
}

/// F1: a zero amount is answered with "Division by zero" instead of output*(0/input) = 0.
#[test]
fn f1_zero_amount() {
    let mut ctx = simple_context().unwrap();
    // sanity: linear for non-zero amounts
    assert_eq!(num(&mut ctx, "mass of 2 liter water").unwrap().0, "2/1");
    let r = num(&mut ctx, "mass of 0 liter water");
    println!("mass of 0 liter water => {:?}", r);
    let r2 = num(&mut ctx, "volume of 0 kg water");
    println!("volume of 0 kg water => {:?}", r2);
    let r3 = one_line(&mut ctx, "0 liter water");
    println!("0 liter water => {:?}", r3);
    let r4 = one_line(&mut ctx, "(2 liter water) * 0");
    println!("(2 liter water) * 0 => {:?}", r4);
    // a zero amount of the wrong dimensionality is not even a conformance error
    let r5 = eval(&mut ctx, "mass of 0 second water");
    println!("mass of 0 second water => {:?}", r5.as_ref().map(|x| x.to_string()).map_err(|e| e.to_string()));
    assert_eq!(r.map(|x| x.0), Ok("0/1".to_owned()));
    assert_eq!(r2.map(|x| x.0), Ok("0/1".to_owned()));
    assert!(r3.is_ok());
    assert!(r4.is_ok());
    assert!(matches!(r5, Err(QueryError::Conformance(_))));
}

/// F2: with a dimensionless amount the input/output names of a property are ignored.
#[test]
fn f2_dimensionless_amount_names() {
    let mut ctx = simple_context().unwrap();
    // (a) database substance defined by a formula: molar_mass relates `amount` (1) to `mass` (kg/mol)
    println!("androstanolone => {:?}", one_line(&mut ctx, "androstanolone"));
    let a = num(&mut ctx, "mass of 3 androstanolone");
    println!("mass of 3 androstanolone => {:?}", a);
    let a2 = num(&mut ctx, "mass of 3 C2H6O");
    println!("mass of 3 C2H6O => {:?}", a2);
    // the inverse direction works, which shows the names are meant to be usable
    println!(
        "amount of (3*0.290446 kg/mol) androstanolone => {:?}",
        num(&mut ctx, "amount of (3*0.290446 kg/mol) androstanolone")
    );
    // (b) inverse of a property whose output is dimensionless
    assert_eq!(num(&mut ctx, "atomic_number of 3 mercury").unwrap().0, "240/1");
    let b = num(&mut ctx, "mercury_atomic_number of 240 mercury");
    println!("mercury_atomic_number of 240 mercury => {:?}", b);
    // ... although the same input name works when the output has a dimension:
    println!("earth_mass of (2 * 5.9742e24 kg) earth => {:?}", one_line(&mut ctx, "earth_mass of (mass of 2 earth) earth"));
    assert_eq!(a.map(|x| x.0), Ok("435669/500000".to_owned())); // 3 * 145223/500000
    assert!(a2.is_ok());
    assert_eq!(b.map(|x| x.0), Ok("3/1".to_owned()));
}

/// F3: a dimensionless amount for a property with a dimensioned input is not a conformance error.
#[test]
fn f3_dimensionless_amount_not_conformance() {
    let mut ctx = simple_context().unwrap();
    assert!(matches!(eval(&mut ctx, "mass of 2 second water"), Err(QueryError::Conformance(_))));
    assert!(matches!(eval(&mut ctx, "atomic_number of 2 kg gold"), Err(QueryError::Conformance(_))));
    let r = eval(&mut ctx, "mass of 2 water");
    println!("mass of 2 water => {:?}", r.as_ref().map(|x| x.to_string()).map_err(|e| e.to_string()));
    let r2 = eval(&mut ctx, "volume of 2 water");
    println!("volume of 2 water => {:?}", r2.as_ref().map(|x| x.to_string()).map_err(|e| e.to_string()));
    assert!(matches!(r, Err(QueryError::Conformance(_))));
    assert!(matches!(r2, Err(QueryError::Conformance(_))));
}

/// F4: text that is not a well-formed formula is treated as one.
#[test]
fn f4_degenerate_formulas() {
    let ctx = simple_context().unwrap();
    let mut bad = vec![];
    for w in ["", "O0", "H2O0", "H0O0", "H02", "O0000000001"] {
        // direct call of the formula parser ...
        let direct = rink_core::parsing::formula::substance_from_formula(
            w,
            &ctx.registry.substance_symbols,
            &ctx.registry.substances,
        );
        // ... and through evaluation of an identifier
        let evald = ctx.eval(&Expr::new_unit(w.to_owned()));
        if let Ok(Value::Substance(s)) = evald {
            let mm = s.get("molar_mass").ok();
            println!("{:?} accepted as a formula, molar_mass = {:?}", w, mm);
            bad.push(w);
        }
        assert_eq!(direct.is_some(), bad.last() == Some(&w));
    }
    let mut ctx = ctx;
    println!("molar_mass of O0 => {:?}", one_line(&mut ctx, "molar_mass of O0"));
    println!("molar_mass of H02 => {:?}", one_line(&mut ctx, "molar_mass of H02"));
    println!("O0 => {:?}", one_line(&mut ctx, "O0"));
    assert!(bad.is_empty(), "accepted: {:?}", bad);
}

/// F5: formulas (and element symbols) are shadowed by guessed unit names (prefix + unit, plural `s`).
#[test]
fn f5_formula_shadowed_by_units() {
    let mut ctx = simple_context().unwrap();
    // control: these work
    for q in ["molar_mass of NaCl", "molar_mass of InP", "molar_mass of GaN", "molar_mass of InAs", "molar_mass of KF"] {
        println!("{} => {:?}", q, one_line(&mut ctx, q));
        assert!(one_line(&mut ctx, q).is_ok());
    }
    let mut failed = vec![];
    for q in [
        "molar_mass of GaAs", // "GaAs" -> plural of "GaA" -> deka-giga... ampere
        "molar_mass of Cs", // plural of C (coulomb)
        "molar_mass of As", // plural of A (ampere)
        "molar_mass of YH", // yottahenry
        "molar_mass of PN", // petanewton
        "molar_mass of Mg", // megagram
    ] {
        let r = one_line(&mut ctx, q);
        println!("{} => {:?}", q, r);
        if r.is_err() {
            failed.push(q);
        }
    }
    assert!(failed.is_empty(), "{:?}", failed);
}

/// F6: the formulas H2O and NH3 have no molar mass (aliases of substances without one).
#[test]
fn f6_h2o_nh3() {
    let mut ctx = simple_context().unwrap();
    println!("molar_mass of H2O2 => {:?}", one_line(&mut ctx, "molar_mass of H2O2"));
    println!("molar_mass of HOH => {:?}", one_line(&mut ctx, "molar_mass of HOH"));
    let a = one_line(&mut ctx, "molar_mass of H2O");
    let b = one_line(&mut ctx, "molar_mass of NH3");
    println!("molar_mass of H2O => {:?}", a);
    println!("molar_mass of NH3 => {:?}", b);
    assert!(a.is_ok() && b.is_ok());
}
