// C15 hunt: targeted, minimal reproductions.
// Run: cargo test --offline -p rink-core --features bundle-files --test c15_extra -- --nocapture --test-threads 1
use rink_core::{eval, one_line, simple_context, Context};

fn show(ctx: &mut Context, q: &str) -> String {
    let r = match one_line(ctx, q) {
        Ok(s) => format!("OK  {}", s),
        Err(s) => format!("ERR {}", s),
    };
    println!("  > {:<28} {}    [ans = {:?}]", q, r, ctx.previous_result);
    r
}

/// F2: a conversion with an empty target is answered like a plain expression and sets ans.
#[test]
fn empty_conversion_target_sets_ans() {
    let mut ctx = simple_context().unwrap();
    ctx.save_previous_result = true;
    show(&mut ctx, "2 + 3");
    show(&mut ctx, "10 m -> cm"); // a conversion: ans stays 5
    assert_eq!(show(&mut ctx, "ans"), "OK  5 (dimensionless)");
    let mut bad = 0;
    for q in ["10 m ->", "7 kg to", "12 in", "foot →"] {
        show(&mut ctx, "2 + 3");
        show(&mut ctx, q);
        let after = show(&mut ctx, "ans");
        if after != "OK  5 (dimensionless)" {
            println!("  VIOLATION: `{}` is a conversion, it must leave ans alone", q);
            bad += 1;
        }
    }
    assert_eq!(bad, 0);
}

/// F3: `search` followed by anything but a name is evaluated as an expression and sets ans.
#[test]
fn search_with_non_name_sets_ans() {
    let mut ctx = simple_context().unwrap();
    ctx.save_previous_result = true;
    show(&mut ctx, "2 + 3");
    show(&mut ctx, "search foot"); // a real search: ans stays 5
    assert_eq!(show(&mut ctx, "ans"), "OK  5 (dimensionless)");
    let mut bad = 0;
    for q in ["search 2 g", "search -ans", "search (foot)", "search 100"] {
        show(&mut ctx, "2 + 3");
        show(&mut ctx, q);
        let after = show(&mut ctx, "ans");
        if after != "OK  5 (dimensionless)" {
            println!("  VIOLATION: `{}` is a search command, it must leave ans alone", q);
            bad += 1;
        }
    }
    assert_eq!(bad, 0);
}

/// F4: a database that defines a unit called `ans` (or `_`).
#[test]
fn database_unit_called_ans() {
    let mut ctx = simple_context().unwrap();
    ctx.load_definitions("ans 42 m\n_ 7 kg\n").unwrap();
    ctx.save_previous_result = true;
    show(&mut ctx, "ans");
    show(&mut ctx, "ans + 0 m");
    show(&mut ctx, "2 + 3");
    let bare = show(&mut ctx, "ans");
    let plus = show(&mut ctx, "ans + 0");
    show(&mut ctx, "_");
    show(&mut ctx, "_ + 0");
    show(&mut ctx, "search ans");
    show(&mut ctx, "1 m -> ans");
    assert_eq!(plus, "OK  5 (dimensionless)");
    assert_eq!(bare, "OK  5 (dimensionless)", "bare `ans` must denote the previous answer too");
}

/// F5: the feature switched off after it was on (rink-js setSavePreviousResult(false)).
#[test]
fn stale_ans_after_feature_switched_off() {
    let mut ctx = simple_context().unwrap();
    ctx.save_previous_result = true;
    show(&mut ctx, "1 + 1");
    ctx.save_previous_result = false;
    show(&mut ctx, "5 + 5");
    let r = show(&mut ctx, "ans");
    // a fresh context with the feature off does not know `ans`
    let mut fresh = simple_context().unwrap();
    let f = show(&mut fresh, "ans");
    assert_eq!(r, f, "with the feature off `ans` still answers with a stale value");
}

/// The clock: eval() overwrites the time the caller set. This is what the
/// doc comment of `eval` says it does, so it is not reported; kept for reference.
#[test]
#[ignore]
fn eval_overwrites_clock() {
    use chrono::TimeZone;
    let mut ctx = simple_context().unwrap();
    let t = chrono::Local.timestamp_opt(1_000_000_000, 0).unwrap();
    ctx.set_time(t);
    let _ = eval(&mut ctx, "1 + 1");
    println!("  set {:?}, after a query the context has {:?}", t, ctx.now);
    assert_eq!(ctx.now, t);
}

/// Minor: `_` glued to a numeral is a digit separator, not the previous answer.
#[test]
fn underscore_after_numeral() {
    let mut ctx = simple_context().unwrap();
    ctx.save_previous_result = true;
    show(&mut ctx, "3 + 4");
    let a = show(&mut ctx, "2 _");
    show(&mut ctx, "3 + 4");
    let b = show(&mut ctx, "2_");
    show(&mut ctx, "3 + 4");
    let c = show(&mut ctx, "2ans");
    assert_eq!(a, c);
    assert_eq!(a, b, "`2_` is not `2 _`");
}
