// C05 hunt: the constant factor of a conversion target is printed in decimal inside a reply
// whose numeral is in the requested base.
#[test]
fn factor_is_in_requested_base() {
    let mut ctx = rink_core::simple_context().unwrap();
    let a = rink_core::one_line(&mut ctx, "100 m -> hex 10 m").unwrap();
    let b = rink_core::one_line(&mut ctx, "100 m -> base 2 (1/2) m").unwrap();
    println!("100 m -> hex 10 m        => {}\n100 m -> base 2 (1/2) m  => {}", a, b);
    // 100 m = 0xa * 0xa m ; `10` is not sixteen
    assert_eq!(a, "a * a meter (length)");
    // `2` is not a binary numeral at all
    assert_eq!(b, "11001000 meter / 10 (length)");
}
