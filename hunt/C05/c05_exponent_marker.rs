// C05 hunt: in bases >= 15 the exponent marker `e` is itself a digit, so one printed numeral
// stands for two different values (and the exponent after it is written in decimal).
use rink_core::output::Digits;
use rink_core::types::Numeric;

#[test]
fn exact_numerals_of_different_values_must_differ() {
    let mut collisions = vec![];
    for base in 15u8..=36 {
        for k in 1i64..=9 {
            // value A: base^k, printed in scientific notation
            let a = Numeric::from(base as i64).pow(k as i32);
            let (ea, sa) = a.to_string(base, Digits::Scientific);
            // value B: the terminating base-`base` numeral 1.0e<k>  = 1 + 14/base^2 + k/base^3
            let b3 = (base as i64).pow(3);
            let b = Numeric::from_frac(b3 + 14 * base as i64 + k, b3);
            let (eb, sb) = b.to_string(base, Digits::Default);
            if ea && eb && sa == sb {
                collisions.push(format!("base {}: {:?} is printed (exact) both for {}^{} and for {}/{}", base, sa, base, k, b3 + 14 * base as i64 + k, b3));
            }
        }
    }
    println!("{} collisions", collisions.len());
    for c in collisions.iter().take(6) { println!("  {}", c); }
    assert!(collisions.is_empty());
}

#[test]
fn one_line_collision_hex() {
    let mut ctx = rink_core::simple_context().unwrap();
    let a = rink_core::one_line(&mut ctx, "16 -> sci hex").unwrap();
    let b = rink_core::one_line(&mut ctx, "4321/4096 -> hex").unwrap();
    println!("16 -> sci hex      => {}\n4321/4096 -> hex   => {}", a, b);
    assert_ne!(a, b);
}
