// C05 hunt: numerals printed inside the expression of a Definition reply.
use rink_core::ast::Expr;
use rink_core::output::{Digits, QueryReply};
use rink_core::types::Numeric;

fn consts(e: &Expr, out: &mut Vec<Numeric>) {
    match e {
        Expr::Const { value } => out.push(value.clone()),
        Expr::BinOp(b) => { consts(&b.left, out); consts(&b.right, out); }
        Expr::UnaryOp(u) => consts(&u.expr, out),
        Expr::Mul { exprs } => for x in exprs { consts(x, out) },
        Expr::Of { expr, .. } => consts(expr, out),
        Expr::Call { args, .. } => for x in args { consts(x, out) },
        _ => {}
    }
}

#[test]
fn definition_expression_numerals_are_exact() {
    let mut ctx = rink_core::simple_context().unwrap();
    let defs: Vec<(String, Expr)> = ctx.registry.definitions.iter().map(|(k, v)| (k.clone(), v.clone())).collect();
    let mut total = 0;
    let mut bad = vec![];
    for (name, expr) in &defs {
        let mut cs = vec![];
        consts(expr, &mut cs);
        let reply = match rink_core::eval(&mut ctx, name) { Ok(QueryReply::Def(d)) => d, _ => continue };
        let def = match &reply.def { Some(d) => d.clone(), None => continue };
        total += 1;
        for c in cs {
            let (exact, s) = c.to_string(10, Digits::Default);
            if !exact && def.contains(&s) {
                let full = c.to_string(10, Digits::Digits(60)).1;
                bad.push(format!("{}: reply {:?}; constant is {} but printed unmarked as {}", name, format!("{}", reply), full, s));
                break;
            }
        }
    }
    println!("{} definition replies checked, {} show a truncated constant with no approx marker", total, bad.len());
    for b in bad.iter().take(12) { println!("  {}", b); }
    assert!(bad.is_empty());
}
