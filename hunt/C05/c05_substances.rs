// C05 hunt: `substance -> <base/digits> unit` must print numerals in the requested base.
use rink_core::output::QueryReply;

#[test]
fn substance_conversion_honours_base() {
    let mut ctx = rink_core::simple_context().unwrap();
    let subs: Vec<String> = ctx.registry.substances.keys().cloned().collect();
    let targets = ["kg", "gram", "liter", "m^3", "joule", "mol", "btu", "kg/m^3", "J/kg", "g/mol", "dollar", "m", "W", "K"];
    let mut checked = 0;
    let mut bad = vec![];
    for s in &subs {
        for t in &targets {
            for amount in ["", "3 ", "3 kg ", "3 liter "] {
                let qd = format!("{}{} -> {}", amount, s, t);
                let qh = format!("{}{} -> base 7 {}", amount, s, t);
                let (rd, rh) = match (rink_core::eval(&mut ctx, &qd), rink_core::eval(&mut ctx, &qh)) {
                    (Ok(QueryReply::Substance(a)), Ok(QueryReply::Substance(b))) => (a, b),
                    _ => continue,
                };
                for (pd, ph) in rd.properties.iter().zip(rh.properties.iter()) {
                    // skip the echoed amount
                    if pd.name != ph.name { continue; }
                    checked += 1;
                    let nd = pd.value.format("n");
                    let nh = ph.value.format("n");
                    // a numeral with a digit >= 7 is not even a base-7 numeral; an identical
                    // multi-digit numeral cannot denote the same value in base 7 and base 10.
                    let numeral = nh.rsplit("approx. ").next().unwrap().to_string();
                    let invalid_digit = numeral.chars().any(|c| matches!(c, '7' | '8' | '9'));
                    let multi = numeral.chars().filter(|c| c.is_ascii_digit()).count() > 1;
                    if invalid_digit || (nd == nh && multi && !numeral.contains('/')) {
                        bad.push(format!("{:?}: {} = {:?} (decimal query prints {:?})", qh, ph.name, format!("{}", ph.value), nd));
                    }
                }
            }
        }
    }
    println!("{} property values checked, {} printed in decimal despite `base 7`", checked, bad.len());
    for b in bad.iter().take(15) { println!("  {}", b); }
    assert!(bad.is_empty());
}
