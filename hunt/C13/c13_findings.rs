// C13 findings: one test per root cause. Every test FAILS while the defect is present.
// Run all:  CARGO_NET_OFFLINE=true cargo test --offline -p rink-core --features bundle-files,serde_json --test c13_findings -- --test-threads=1
// Run one:  ... --test c13_findings f1a_degree_in_currency_json_panics_during_load
use rink_core::Context;
use std::panic::{catch_unwind, AssertUnwindSafe};

fn no_panic<T>(what: &str, f: impl FnOnce() -> T) -> T {
    match catch_unwind(AssertUnwindSafe(f)) {
        Ok(v) => v,
        Err(e) => {
            let msg = e
                .downcast_ref::<String>()
                .cloned()
                .or_else(|| e.downcast_ref::<&str>().map(|s| s.to_string()))
                .unwrap_or_default();
            panic!("PANIC in {}: {}", what, msg)
        }
    }
}

fn without_line(text: &str, lineno: usize, expect: &str) -> String {
    let mut lines: Vec<&str> = text.lines().collect();
    assert_eq!(lines[lineno - 1].trim(), expect, "fixture line moved");
    lines.remove(lineno - 1);
    lines.join("\n")
}

// ---------------------------------------------------------------- F1
#[test]
fn f1a_degree_in_currency_json_panics_during_load() {
    // A context that has no temperature units (Context::new() is public API; load_currency is
    // documented to work on any context).
    let mut ctx = Context::new();
    let live = r#"[{"name":"boil","doc":null,"category":null,"type":"unit","expr":"100 degC"}]"#;
    let r = no_panic("load_currency", || ctx.load_currency(live, "EUR !euro\n"));
    assert!(r.is_err(), "a definition that cannot be evaluated must be reported");
}

#[test]
fn f1b_bundled_file_minus_one_line_then_temperature_query_panics() {
    let text = without_line(rink_core::DEFAULT_FILE.unwrap(), 990, "zerocelsius             273.15 K");
    let mut ctx = Context::new();
    let r = no_panic("load", || ctx.load_definitions(&text));
    assert!(r.is_err()); // partial load, properly reported
    // K, kelvin, degrankine ... did load; the context has to keep answering
    for q in &["5 degC", "1 K -> °C", "300 K -> degF", "20 °Ré"] {
        let r = no_panic(q, || rink_core::one_line(&mut ctx, q));
        println!("{} => {:?}", q, r);
    }
}

#[test]
fn f1c_temperature_constants_of_another_dimension_panic() {
    let mut ctx = Context::new();
    let r = no_panic("load", || {
        ctx.load_definitions("m !\nK !kelvin\nzerocelsius 273.15 m\n")
    });
    println!("load => {:?}", r);
    for q in &["5 degC", "5 K -> degC"] {
        let r = no_panic(q, || rink_core::one_line(&mut ctx, q));
        println!("{} => {:?}", q, r);
    }
}

#[test]
fn f1d_seconds_cannot_be_shown_without_year_week_day() {
    // same pattern (hard-wired unit names), but an error instead of a panic
    let mut ctx = Context::new();
    let r = ctx.load_definitions("s !second\nminute 60 s\nbroken nosuchunit\n");
    assert!(r.is_err());
    let r = rink_core::one_line(&mut ctx, "2 minute");
    assert!(r.is_ok(), "`2 minute` after a partial load => {:?}", r);
}

// ---------------------------------------------------------------- F2
#[test]
fn f2a_bundled_file_minus_closing_brace_loses_definition_silently() {
    let text = without_line(rink_core::DEFAULT_FILE.unwrap(), 7160, "}");
    let mut ctx = Context::new();
    let r = ctx.load_definitions(&text);
    let sulphur = rink_core::one_line(&mut ctx, "sulphur");
    println!("load => {:?}\nsulphur => {:?}", r, sulphur);
    // pristine file: `sulphur` is an alias of the substance sulfur
    assert!(
        r.is_err() || sulphur.is_ok(),
        "load returned Ok(()) although the definition of `sulphur` was dropped: {:?}",
        sulphur
    );
}

#[test]
fn f2b_minimal_unterminated_substance_swallows_following_definitions() {
    let mut ctx = Context::new();
    let r = ctx.load_definitions("m !\nfoo {\n    p const q 3 m\nbar foo\nbaz 2 m\n");
    let bar = rink_core::one_line(&mut ctx, "bar");
    let baz = rink_core::one_line(&mut ctx, "baz");
    println!("load => {:?}\nbar => {:?}\nbaz => {:?}", r, bar, baz);
    assert!(r.is_err() || (bar.is_ok() && baz.is_ok()), "two definitions vanished, load said Ok(())");
}

#[test]
fn f2c_syntax_errors_are_printed_not_returned() {
    for text in &[
        "m !\n!category\n",
        "m !\n!symbol foo\n",
        "m !\n!frobnicate 1 2 3\n",
        "m !\n) ) )\n",
        "m !\n^ 3\n",
        "m !\nfoo { bar }\n",
        "m !\nfoo { bar baz 3 m }\n",
        "m !\n!endcategory\n",
    ] {
        let mut ctx = Context::new();
        let r = ctx.load_definitions(text);
        assert!(r.is_err(), "malformed input {:?} was accepted with Ok(())", text);
    }
}

// ---------------------------------------------------------------- F3
#[test]
fn f3_zero_valued_si_prefix_makes_queries_panic() {
    let mut ctx = Context::new();
    let r = ctx.load_definitions("m !\nkilo- 0\nbroken nosuchunit\n");
    println!("load => {:?}", r);
    for q in &["1 m", "1/m", "5 m^-2"] {
        let r = no_panic(q, || rink_core::one_line(&mut ctx, q));
        println!("{} => {:?}", q, r);
    }
}

// ---------------------------------------------------------------- F4
#[test]
fn f4_fractional_exponents_in_prefixes_and_quantities_are_truncated_silently() {
    let mut ctx = Context::new();
    let r = ctx.load_definitions("m !\nlength ? m\nhalf- 10^0.5\nrat- 4^(1|2)\nweird ? length^2.5\n");
    let half = rink_core::one_line(&mut ctx, "half");
    let rat = rink_core::one_line(&mut ctx, "rat");
    let area = rink_core::one_line(&mut ctx, "1 m^2");
    println!("load => {:?}\nhalf => {:?}\nrat => {:?}\n1 m^2 => {:?}", r, half, rat, area);
    // own arithmetic: 10^0.5 = 3.16..., 4^(1/2) = 2, and m^2.5 is not m^2
    assert!(
        r.is_err() || (half != Ok("1".to_owned()) && rat != Ok("1".to_owned())),
        "10^0.5 and 4^(1|2) were both loaded as 1 without any error"
    );
    assert!(
        r.is_err() || !area.as_ref().unwrap().contains("weird"),
        "length^2.5 was registered as the quantity of m^2 without any error"
    );
}

// ---------------------------------------------------------------- F5
#[test]
fn f5_duplicate_through_base_unit_long_name_is_not_reported() {
    // reversed order IS reported ("warning: multiple units named meter")
    let mut ctx = Context::new();
    let reversed = ctx.load_definitions("s !\nm !meter\nmeter 5 s\n");
    assert!(reversed.is_err());

    let mut ctx = Context::new();
    let r = ctx.load_definitions("s !\nmeter 5 s\nm !meter\n");
    let conv_m = rink_core::one_line(&mut ctx, "1 meter -> m");
    let conv_s = rink_core::one_line(&mut ctx, "1 meter -> s");
    println!("load => {:?}\n1 meter -> m => {:?}\n1 meter -> s => {:?}", r, conv_m, conv_s);
    println!(
        "base units: {:?}",
        ctx.registry.base_units.iter().map(|b| b.id.to_string()).collect::<Vec<_>>()
    );
    assert!(r.is_err(), "`meter` is defined twice and nothing was reported");
}

#[test]
fn f5b_two_base_units_with_the_same_long_name() {
    let mut ctx = Context::new();
    let r = ctx.load_definitions("a !meter\nb !meter\n");
    println!("load => {:?}; 1 meter -> a => {:?}", r, rink_core::one_line(&mut ctx, "1 meter -> a"));
    assert!(r.is_err(), "`meter` names two different base units and nothing was reported");
}

// ---------------------------------------------------------------- F6
#[test]
fn f6_unit_named_ans_or_underscore_makes_search_panic() {
    let mut ctx = Context::new();
    let r = ctx.load_definitions("m !\nans 5 m\n_ 3\nbroken nosuchunit\n");
    println!("load => {:?}", r);
    for q in &["search ans", "search _", "search an"] {
        let r = no_panic(q, || rink_core::one_line(&mut ctx, q));
        println!("{} => {:?}", q, r);
    }
}

// ---------------------------------------------------------------- F7
fn json_unit(expr: &str) -> String {
    serde_json::to_string(&serde_json::json!([
        {"name": "foo", "doc": null, "category": null, "type": "unit", "expr": expr}
    ]))
    .unwrap()
}

#[test]
fn f7a_time_of_day_that_does_not_exist_today_panics_during_load() {
    use chrono::TimeZone;
    let mut ctx = rink_core::simple_context().unwrap();
    // The embedding application sets the clock (cli does on every start). 2024-03-10 is the
    // day US clocks jump from 02:00 to 03:00.
    ctx.set_time(chrono::Utc.with_ymd_and_hms(2024, 3, 10, 17, 0, 0).unwrap().with_timezone(&chrono::Local));
    let live = json_unit("#02:30 America/New_York# - now");
    let r = no_panic("load_currency", || ctx.load_currency(&live, "EUR !euro\n"));
    println!("{:?}", r);
}

#[test]
fn f7b_ambiguous_time_of_day_panics_during_load() {
    use chrono::TimeZone;
    let mut ctx = rink_core::simple_context().unwrap();
    ctx.set_time(chrono::Utc.with_ymd_and_hms(2024, 11, 3, 17, 0, 0).unwrap().with_timezone(&chrono::Local));
    let live = json_unit("#01:30 America/New_York# - now");
    let r = no_panic("load_currency", || ctx.load_currency(&live, "EUR !euro\n"));
    println!("{:?}", r);
}

#[test]
fn f7c_bc_year_overflows_during_load() {
    // arithmetic overflow panic in builds with overflow checks (cargo test, cargo build)
    let mut ctx = rink_core::simple_context().unwrap();
    let live = json_unit("#-2147483647 jan 1 bc# - now");
    let r = no_panic("load_currency", || ctx.load_currency(&live, "EUR !euro\n"));
    println!("{:?}", r);
}

// ---------------------------------------------------------------- F8
#[test]
fn f8_exponent_literal_load_time_is_quadratic() {
    // 1e400000 is an 18 byte definition. Exponents up to 2147483647 are accepted.
    use std::time::Instant;
    let mut times = vec![];
    for e in &[25_000u32, 50_000, 100_000] {
        let mut ctx = Context::new();
        let t0 = Instant::now();
        ctx.load_definitions(&format!("m !\nfoo 1e{} m\n", e)).unwrap();
        times.push(t0.elapsed().as_secs_f64());
        println!("1e{}: {:?}", e, t0.elapsed());
    }
    // doubling the exponent must not quadruple the time
    assert!(
        times[2] / times[1] < 3.0 && times[1] / times[0] < 3.0,
        "load time grows quadratically with the exponent: {:?}",
        times
    );
}
