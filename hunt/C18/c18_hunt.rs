// C18 hunt driver: drives the real rink_sandbox::Sandbox with a fault-injecting
// Service and checks "one reply per request, own result, recovery" with an
// oracle that only knows what each request is supposed to do.
//
// Usage (parent):
//   c18_hunt enum <maxlen> <shard> <nshards> [timeout_ms]
//   c18_hunt rand <count> <seed> [timeout_ms]
//   c18_hunt seq "<ops>" [gap_ms] [timeout_ms]     ops: N P S A E L (+ extras, see parse_op)
//   c18_hunt cancel | concurrent | delayed | sigint | second | big4g | exotic | fds
use async_std::prelude::FutureExt as _;
use rink_sandbox::{Alloc, Error, Sandbox, Service};
use serde_derive::{Deserialize, Serialize};
use std::{
    env,
    ffi::OsString,
    io::Error as IoError,
    time::{Duration, Instant},
};

#[global_allocator]
pub(crate) static GLOBAL: Alloc = Alloc::new(usize::MAX);

const MEM_LIMIT: usize = 64 * 1024 * 1024;

#[derive(Serialize, Deserialize, Clone, Debug)]
struct Cfg {
    timeout_ms: u64,
    mem_limit: usize,
}

#[derive(Serialize, Deserialize, Clone, Debug)]
enum Req {
    Normal { id: u64 },
    Panic { id: u64 },
    PanicAny { id: u64 },
    ResumeUnwind { id: u64 },
    PanicBigMsg { id: u64, n: usize },
    Sleep { id: u64, ms: u64 },
    Spin { id: u64, ms: u64 },
    Alloc { id: u64, bytes: usize },
    Exit { id: u64, code: i32 },
    Abort { id: u64 },
    Kill9 { id: u64 },
    Large { id: u64, data: Vec<u8> },
    LargeResp { id: u64, n: usize },
    DelayedExit { id: u64, ms: u64 },
    Print { id: u64 },
    Eprint { id: u64 },
}

impl Req {
    fn id(&self) -> u64 {
        match self {
            Req::Normal { id }
            | Req::Panic { id }
            | Req::PanicAny { id }
            | Req::ResumeUnwind { id }
            | Req::PanicBigMsg { id, .. }
            | Req::Sleep { id, .. }
            | Req::Spin { id, .. }
            | Req::Alloc { id, .. }
            | Req::Exit { id, .. }
            | Req::Abort { id }
            | Req::Kill9 { id }
            | Req::Large { id, .. }
            | Req::LargeResp { id, .. }
            | Req::DelayedExit { id, .. }
            | Req::Print { id }
            | Req::Eprint { id } => *id,
        }
    }
}

#[derive(Serialize, Deserialize, Clone, Debug, PartialEq)]
struct Res {
    id: u64,
    pid: u32,
    len: usize,
    sum: u64,
    data: Vec<u8>,
}

fn checksum(data: &[u8]) -> u64 {
    let mut h: u64 = 0xcbf29ce484222325;
    for b in data {
        h ^= *b as u64;
        h = h.wrapping_mul(0x100000001b3);
    }
    h
}

fn gen_data(id: u64, n: usize) -> Vec<u8> {
    let mut x = id.wrapping_mul(0x9E3779B97F4A7C15) | 1;
    let mut v = Vec::with_capacity(n);
    for _ in 0..n {
        x ^= x << 13;
        x ^= x >> 7;
        x ^= x << 17;
        v.push(x as u8);
    }
    v
}

struct Svc;

impl Service for Svc {
    type Req = Req;
    type Res = Res;
    type Config = Cfg;

    fn args(_config: &Self::Config) -> Vec<OsString> {
        vec!["--child".into()]
    }
    fn timeout(config: &Self::Config) -> Duration {
        Duration::from_millis(config.timeout_ms)
    }
    fn create(config: Self::Config) -> Result<Self, IoError> {
        GLOBAL.set_limit(config.mem_limit);
        Ok(Svc)
    }
    fn handle(&self, req: Req) -> Res {
        let pid = std::process::id();
        let mk = |id: u64| Res {
            id,
            pid,
            len: 0,
            sum: 0,
            data: vec![],
        };
        match req {
            Req::Normal { id } => mk(id),
            Req::Panic { id } => panic!("boom-{}", id),
            Req::PanicAny { id } => std::panic::panic_any(id),
            Req::ResumeUnwind { id } => std::panic::resume_unwind(Box::new(id)),
            Req::PanicBigMsg { id, n } => {
                let s = "x".repeat(n);
                panic!("boom-{}-{}", id, s)
            }
            Req::Sleep { id, ms } => {
                std::thread::sleep(Duration::from_millis(ms));
                mk(id)
            }
            Req::Spin { id, ms } => {
                let t = Instant::now();
                while t.elapsed() < Duration::from_millis(ms) {
                    std::hint::spin_loop();
                }
                mk(id)
            }
            Req::Alloc { id, bytes } => {
                let mut v: Vec<u8> = Vec::with_capacity(bytes);
                v.push(1);
                let mut r = mk(id);
                r.len = v.capacity();
                r
            }
            Req::Exit { code, .. } => std::process::exit(code),
            Req::Abort { .. } => std::process::abort(),
            Req::Kill9 { .. } => {
                let _ = std::process::Command::new("kill")
                    .arg("-9")
                    .arg(format!("{}", pid))
                    .status();
                std::thread::sleep(Duration::from_secs(60));
                unreachable!()
            }
            Req::Large { id, data } => {
                let mut r = mk(id);
                r.len = data.len();
                r.sum = checksum(&data);
                r
            }
            Req::LargeResp { id, n } => {
                let mut r = mk(id);
                r.data = gen_data(id, n);
                r.len = n;
                r.sum = checksum(&r.data);
                r
            }
            Req::DelayedExit { id, ms } => {
                std::thread::spawn(move || {
                    std::thread::sleep(Duration::from_millis(ms));
                    std::process::exit(3);
                });
                mk(id)
            }
            Req::Print { id } => {
                println!("hello from {}", id);
                mk(id)
            }
            Req::Eprint { id } => {
                eprintln!("(child stderr from {})", id);
                mk(id)
            }
        }
    }
}

// ---------------------------------------------------------------- oracle

#[derive(Debug, Clone, PartialEq)]
enum Expect {
    OkEcho { len: usize, sum: u64 },
    Panic(Option<String>),
    Timeout,
    Crashed,
}

fn expect_for(req: &Req, cfg: &Cfg) -> Expect {
    match req {
        Req::Normal { .. } | Req::Print { .. } | Req::Eprint { .. } | Req::DelayedExit { .. } => {
            Expect::OkEcho { len: 0, sum: 0 }
        }
        Req::Panic { id } => Expect::Panic(Some(format!("boom-{}", id))),
        Req::PanicAny { .. } | Req::ResumeUnwind { .. } => Expect::Panic(None),
        Req::PanicBigMsg { id, .. } => Expect::Panic(Some(format!("boom-{}", id))),
        Req::Sleep { ms, .. } | Req::Spin { ms, .. } => {
            if *ms >= cfg.timeout_ms {
                Expect::Timeout
            } else {
                Expect::OkEcho { len: 0, sum: 0 }
            }
        }
        Req::Alloc { bytes, .. } => {
            if *bytes > cfg.mem_limit {
                Expect::Crashed
            } else {
                Expect::OkEcho { len: *bytes, sum: 0 }
            }
        }
        Req::Exit { .. } | Req::Abort { .. } | Req::Kill9 { .. } => Expect::Crashed,
        Req::Large { data, .. } => {
            if data.len() > cfg.mem_limit {
                Expect::Crashed
            } else {
                Expect::OkEcho {
                    len: data.len(),
                    sum: checksum(data),
                }
            }
        }
        Req::LargeResp { id, n } => Expect::OkEcho {
            len: *n,
            sum: checksum(&gen_data(*id, *n)),
        },
    }
}

fn describe(r: &Result<rink_sandbox::Response<Res>, Error>) -> String {
    match r {
        Ok(resp) => format!(
            "Ok(id={}, pid={}, len={}, sum={:x})",
            resp.result.id, resp.result.pid, resp.result.len, resp.result.sum
        ),
        Err(e) => {
            let s = format!("{:?}", e);
            let s: String = s.chars().take(160).collect();
            format!("Err({})", s.replace('\n', " "))
        }
    }
}

/// Returns None when the reply satisfies the property for this request.
fn judge(
    req: &Req,
    cfg: &Cfg,
    reply: &Result<rink_sandbox::Response<Res>, Error>,
) -> Option<String> {
    let exp = expect_for(req, cfg);
    let ok = match (&exp, reply) {
        (Expect::OkEcho { len, sum }, Ok(resp)) => {
            resp.result.id == req.id()
                && resp.result.len == *len
                && resp.result.sum == *sum
                && (resp.result.data.is_empty() || checksum(&resp.result.data) == *sum)
        }
        (Expect::Panic(Some(m)), Err(Error::Panic(msg))) => msg.contains(m.as_str()),
        (Expect::Panic(None), Err(Error::Panic(_))) => true,
        (Expect::Timeout, Err(Error::Timeout(_))) => true,
        (Expect::Crashed, Err(Error::Crashed)) => true,
        _ => false,
    };
    if ok {
        None
    } else {
        Some(format!(
            "request {:?} expected {:?} got {}",
            short(req),
            exp,
            describe(reply)
        ))
    }
}

fn short(req: &Req) -> String {
    match req {
        Req::Large { id, data } => format!("Large{{id:{},len:{}}}", id, data.len()),
        other => format!("{:?}", other),
    }
}

// ---------------------------------------------------------------- driver

struct Rng(u64);
impl Rng {
    fn next(&mut self) -> u64 {
        self.0 ^= self.0 << 13;
        self.0 ^= self.0 >> 7;
        self.0 ^= self.0 << 17;
        self.0
    }
    fn below(&mut self, n: u64) -> u64 {
        self.next() % n
    }
}

fn parse_op(c: char, id: u64, cfg: &Cfg, rng: &mut Rng) -> Req {
    match c {
        'N' => Req::Normal { id },
        'P' => Req::Panic { id },
        'S' => Req::Sleep {
            id,
            ms: cfg.timeout_ms * 4,
        },
        's' => Req::Spin {
            id,
            ms: cfg.timeout_ms * 4,
        },
        'A' => Req::Alloc {
            id,
            bytes: cfg.mem_limit * 2,
        },
        'a' => Req::Alloc {
            id,
            bytes: cfg.mem_limit / 4,
        },
        'E' => Req::Exit {
            id,
            code: (rng.below(3) as i32),
        },
        'B' => Req::Abort { id },
        'K' => Req::Kill9 { id },
        // large payload that fits in the memory limit
        'L' => Req::Large {
            id,
            data: gen_data(id, 200_000 + rng.below(3_000_000) as usize),
        },
        // large payload that does NOT fit in the memory limit
        'X' => Req::Large {
            id,
            data: gen_data(id, cfg.mem_limit + 1_000_000),
        },
        'R' => Req::LargeResp {
            id,
            n: 200_000 + rng.below(3_000_000) as usize,
        },
        'Y' => Req::PanicAny { id },
        'U' => Req::ResumeUnwind { id },
        'M' => Req::PanicBigMsg { id, n: 1_000_000 },
        'D' => Req::DelayedExit { id, ms: 30 },
        'O' => Req::Print { id },
        'e' => Req::Eprint { id },
        _ => panic!("unknown op {}", c),
    }
}

struct Runner {
    sandbox: Sandbox<Svc>,
    cfg: Cfg,
    next_id: u64,
    rng: Rng,
    violations: u64,
    requests: u64,
    verbose: bool,
}

impl Runner {
    async fn new(cfg: Cfg, seed: u64) -> Runner {
        let sandbox = Sandbox::<Svc>::new(cfg.clone()).await.unwrap();
        Runner {
            sandbox,
            cfg,
            next_id: 1,
            rng: Rng(seed | 1),
            violations: 0,
            requests: 0,
            verbose: false,
        }
    }

    /// Runs one sequence; returns the violations found in it.
    async fn run_seq(&mut self, ops: &str, gaps: &[u64]) -> Vec<String> {
        let mut out = vec![];
        let hang_limit = Duration::from_millis(self.cfg.timeout_ms) + Duration::from_secs(20);
        // Terminate each sequence with a normal probe, so that the recovery
        // after a trailing fault is checked as well.
        let all: Vec<char> = ops.chars().chain(std::iter::once('N')).collect();
        for (i, c) in all.iter().enumerate() {
            let id = self.next_id;
            self.next_id += 1;
            let req = parse_op(*c, id, &self.cfg, &mut self.rng);
            let t = Instant::now();
            let reply = async_std::future::timeout(hang_limit, self.sandbox.execute(req.clone()))
                .await;
            self.requests += 1;
            let reply = match reply {
                Ok(r) => r,
                Err(_) => {
                    out.push(format!(
                        "[{}@{}] request {} got NO reply within {:?}",
                        ops,
                        i,
                        short(&req),
                        hang_limit
                    ));
                    // the channel state is unknown now; give up on this process
                    println!("FATAL hang: {:?}", out);
                    std::process::exit(2);
                }
            };
            if self.verbose {
                println!(
                    "  {} -> {} in {:?}",
                    short(&req),
                    describe(&reply),
                    t.elapsed()
                );
            }
            if let Some(v) = judge(&req, &self.cfg, &reply) {
                out.push(format!("[{}@{} gaps={:?}] {}", ops, i, gaps, v));
            }
            let gap = gaps.get(i).copied().unwrap_or(0);
            if gap > 0 {
                async_std::task::sleep(Duration::from_millis(gap)).await;
            }
        }
        self.violations += out.len() as u64;
        out
    }
}

const ALPHABET: [char; 6] = ['N', 'P', 'S', 'A', 'E', 'L'];

fn all_seqs(maxlen: usize) -> Vec<String> {
    let mut res = vec![];
    let mut cur: Vec<String> = vec![String::new()];
    for _ in 0..maxlen {
        let mut next = vec![];
        for s in &cur {
            for c in ALPHABET.iter() {
                let mut t = s.clone();
                t.push(*c);
                next.push(t);
            }
        }
        res.extend(next.iter().cloned());
        cur = next;
    }
    res
}

fn pick_gaps(rng: &mut Rng, n: usize) -> Vec<u64> {
    const CHOICES: [u64; 6] = [0, 0, 1, 5, 25, 120];
    match rng.below(4) {
        0 => vec![0; n],
        _ => (0..n)
            .map(|_| CHOICES[rng.below(CHOICES.len() as u64) as usize])
            .collect(),
    }
}

fn main() -> Result<(), IoError> {
    async_std::task::block_on(amain())
}

async fn amain() -> Result<(), IoError> {
    let args = env::args().collect::<Vec<_>>();
    if args.len() > 1 && args[1] == "--child" {
        rink_sandbox::become_child::<Svc, _>(&GLOBAL);
    }
    let mode = args.get(1).map(|s| s.as_str()).unwrap_or("help");
    let arg = |i: usize, d: u64| -> u64 {
        args.get(i)
            .and_then(|s| s.parse::<u64>().ok())
            .unwrap_or(d)
    };
    match mode {
        "enum" => {
            let maxlen = arg(2, 3) as usize;
            let shard = arg(3, 0);
            let nshards = arg(4, 1);
            let cfg = Cfg {
                timeout_ms: arg(5, 150),
                mem_limit: MEM_LIMIT,
            };
            let mut r = Runner::new(cfg, 0xC18 + shard).await;
            let seqs = all_seqs(maxlen);
            let t = Instant::now();
            let mut n = 0;
            for (i, s) in seqs.iter().enumerate() {
                if (i as u64) % nshards != shard {
                    continue;
                }
                let gaps = pick_gaps(&mut r.rng, s.len() + 1);
                for v in r.run_seq(s, &gaps).await {
                    println!("VIOLATION {}", v);
                }
                n += 1;
            }
            println!(
                "enum maxlen={} shard={}/{}: {} sequences, {} requests, {} violations, {:?}",
                maxlen,
                shard,
                nshards,
                n,
                r.requests,
                r.violations,
                t.elapsed()
            );
        }
        "rand" => {
            let count = arg(2, 100);
            let seed = arg(3, 1);
            let cfg = Cfg {
                timeout_ms: arg(4, 150),
                mem_limit: MEM_LIMIT,
            };
            let alphabet: Vec<char> = "NNPSsAaEBKLXRYUMe".chars().collect();
            let mut r = Runner::new(cfg, seed).await;
            let t = Instant::now();
            for _ in 0..count {
                let len = 1 + r.rng.below(5) as usize;
                let s: String = (0..len)
                    .map(|_| alphabet[r.rng.below(alphabet.len() as u64) as usize])
                    .collect();
                let gaps = pick_gaps(&mut r.rng, len + 1);
                for v in r.run_seq(&s, &gaps).await {
                    println!("VIOLATION {}", v);
                }
            }
            println!(
                "rand count={} seed={}: {} requests, {} violations, {:?}",
                count,
                seed,
                r.requests,
                r.violations,
                t.elapsed()
            );
        }
        "seq" => {
            let ops = args.get(2).cloned().unwrap_or_else(|| "N".into());
            let gap = arg(3, 0);
            let cfg = Cfg {
                timeout_ms: arg(4, 300),
                mem_limit: MEM_LIMIT,
            };
            let mut r = Runner::new(cfg, 7).await;
            r.verbose = true;
            let gaps = vec![gap; ops.len() + 1];
            let vs = r.run_seq(&ops, &gaps).await;
            for v in &vs {
                println!("VIOLATION {}", v);
            }
            println!("seq {:?}: {} violations", ops, vs.len());
        }
        "cancel" => {
            // The caller abandons a request (drops the execute() future, as any
            // select!/timeout combinator does) and then sends another one.
            let cfg = Cfg {
                timeout_ms: 2000,
                mem_limit: MEM_LIMIT,
            };
            let sandbox = Sandbox::<Svc>::new(cfg.clone()).await.unwrap();
            let r0 = sandbox.execute(Req::Normal { id: 1 }).await;
            println!("request 1 -> {}", describe(&r0));
            let abandoned = async_std::future::timeout(
                Duration::from_millis(50),
                sandbox.execute(Req::Sleep { id: 2, ms: 300 }),
            )
            .await;
            println!("request 2 abandoned by caller: {}", abandoned.is_err());
            for id in 3..6u64 {
                let req = Req::Normal { id };
                let r = sandbox.execute(req.clone()).await;
                println!("request {} -> {}", id, describe(&r));
                if let Some(v) = judge(&req, &cfg, &r) {
                    println!("VIOLATION {}", v);
                }
            }
        }
        "concurrent" => {
            let cfg = Cfg {
                timeout_ms: 2000,
                mem_limit: MEM_LIMIT,
            };
            let sandbox = Sandbox::<Svc>::new(cfg.clone()).await.unwrap();
            for round in 0..20u64 {
                let a = Req::Sleep {
                    id: round * 2 + 1,
                    ms: 5,
                };
                let b = Req::Normal { id: round * 2 + 2 };
                let (ra, rb) = sandbox
                    .execute(a.clone())
                    .join(sandbox.execute(b.clone()))
                    .await;
                if let Some(v) = judge(&a, &cfg, &ra) {
                    println!("VIOLATION (concurrent A) {}", v);
                }
                if let Some(v) = judge(&b, &cfg, &rb) {
                    println!("VIOLATION (concurrent B) {}", v);
                }
            }
            println!("concurrent done");
        }
        "concurrent2" => {
            // Two execute() calls overlap on one thread (execute takes &self).
            // B is polled first by join() but sends its request second.
            let cfg = Cfg {
                timeout_ms: 2000,
                mem_limit: MEM_LIMIT,
            };
            let sandbox = Sandbox::<Svc>::new(cfg.clone()).await.unwrap();
            let _ = sandbox.execute(Req::Normal { id: 1000 }).await;
            for round in 0..5u64 {
                let a = Req::Sleep {
                    id: round * 2 + 1,
                    ms: 30,
                };
                let b = Req::Normal { id: round * 2 + 2 };
                let fb = async {
                    async_std::task::sleep(Duration::from_millis(5)).await;
                    sandbox.execute(b.clone()).await
                };
                let (rb, ra) = fb.join(sandbox.execute(a.clone())).await;
                println!("A={} -> {}", short(&a), describe(&ra));
                println!("B={} -> {}", short(&b), describe(&rb));
                if let Some(v) = judge(&a, &cfg, &ra) {
                    println!("VIOLATION (concurrent A) {}", v);
                }
                if let Some(v) = judge(&b, &cfg, &rb) {
                    println!("VIOLATION (concurrent B) {}", v);
                }
            }
        }
        "sizes" => {
            // Payload sizes around the pipe capacity and around the memory limit.
            let limit = arg(2, 2_000_000) as usize;
            let cfg = Cfg {
                timeout_ms: 3000,
                mem_limit: limit,
            };
            let sandbox = Sandbox::<Svc>::new(cfg.clone()).await.unwrap();
            let mut sizes: Vec<usize> = vec![0, 1, 3, 4, 4091, 4092, 4096, 65500, 65535, 65536, 65537, 131072];
            for k in [4usize, 3, 2] {
                for d in [-70000i64, -4096, -100, -1, 0, 1, 100, 4096, 70000] {
                    sizes.push(((limit / k) as i64 + d) as usize);
                }
            }
            for d in [-70000i64, -4096, -100, -1, 0, 1, 100, 4096, 70000, 1_000_000, 10_000_000] {
                sizes.push((limit as i64 + d) as usize);
            }
            let mut id = 0u64;
            let mut bad = 0;
            for resp in [false, true] {
                for n in sizes.iter().copied() {
                    id += 1;
                    let req = if resp {
                        Req::LargeResp { id, n }
                    } else {
                        Req::Large { id, data: gen_data(id, n) }
                    };
                    let r = sandbox.execute(req.clone()).await;
                    let own_ok = judge(&req, &cfg, &r).is_none();
                    let crashed = matches!(r, Err(Error::Crashed));
                    let verdict = if own_ok { "ok" } else if crashed { "crashed" } else { "OTHER" };
                    if !own_ok && !crashed {
                        bad += 1;
                        println!("VIOLATION size {} resp={} -> {}", n, resp, describe(&r));
                    }
                    id += 1;
                    let probe = Req::Normal { id };
                    let pr = sandbox.execute(probe.clone()).await;
                    if let Some(v) = judge(&probe, &cfg, &pr) {
                        bad += 1;
                        println!("VIOLATION after size {} resp={} ({}): {}", n, resp, verdict, v);
                    }
                    println!("size {:>9} resp={} -> {}", n, resp, verdict);
                }
            }
            println!("sizes limit={}: {} violations", limit, bad);
        }
        "gapkill" => {
            // The child is killed from outside while NO request is in flight.
            let cfg = Cfg {
                timeout_ms: 2000,
                mem_limit: MEM_LIMIT,
            };
            let sandbox = Sandbox::<Svc>::new(cfg.clone()).await.unwrap();
            let r1 = sandbox.execute(Req::Normal { id: 1 }).await;
            println!("request 1 -> {}", describe(&r1));
            let pid = r1.unwrap().result.pid;
            let _ = std::process::Command::new("kill")
                .arg("-9")
                .arg(format!("{}", pid))
                .status();
            println!("(child {} killed while idle)", pid);
            async_std::task::sleep(Duration::from_millis(arg(2, 300))).await;
            for id in 2..4u64 {
                let req = Req::Normal { id };
                let r = sandbox.execute(req.clone()).await;
                println!("request {} -> {}", id, describe(&r));
                if let Some(v) = judge(&req, &cfg, &r) {
                    println!("VIOLATION {}", v);
                }
            }
        }
        "sigint2" => {
            // Two SIGINTs (an impatient user) while one long request is in flight.
            let cfg = Cfg {
                timeout_ms: 3000,
                mem_limit: MEM_LIMIT,
            };
            let sandbox = Sandbox::<Svc>::new(cfg.clone()).await.unwrap();
            let me = std::process::id();
            std::thread::spawn(move || {
                for _ in 0..2 {
                    std::thread::sleep(Duration::from_millis(100));
                    let _ = std::process::Command::new("kill")
                        .arg("-INT")
                        .arg(format!("{}", me))
                        .status();
                }
            });
            let r1 = sandbox.execute(Req::Sleep { id: 1, ms: 1500 }).await;
            println!("request 1 (interrupted by the user) -> {}", describe(&r1));
            async_std::task::sleep(Duration::from_millis(500)).await;
            for id in 2..4u64 {
                let req = Req::Normal { id };
                let r = sandbox.execute(req.clone()).await;
                println!("request {} -> {}", id, describe(&r));
                if let Some(v) = judge(&req, &cfg, &r) {
                    println!("VIOLATION {}", v);
                }
            }
        }
        "race" => {
            // The child exits at a random moment relative to the next requests.
            // Tolerated: own result, or Crashed. Anything else (other errors,
            // foreign ids, hangs) is flagged.
            let cfg = Cfg {
                timeout_ms: 2000,
                mem_limit: MEM_LIMIT,
            };
            let sandbox = Sandbox::<Svc>::new(cfg.clone()).await.unwrap();
            let mut rng = Rng(arg(3, 5) | 1);
            let mut id = 0u64;
            let mut crashed = 0u64;
            let mut bad = 0u64;
            for _ in 0..arg(2, 300) {
                id += 1;
                let req = match rng.below(4) {
                    0 => Req::DelayedExit { id, ms: rng.below(8) },
                    1 => Req::Large { id, data: gen_data(id, 100_000 + rng.below(400_000) as usize) },
                    2 => Req::LargeResp { id, n: 100_000 + rng.below(400_000) as usize },
                    _ => Req::Normal { id },
                };
                let r = async_std::future::timeout(Duration::from_secs(20), sandbox.execute(req.clone())).await;
                let r = match r {
                    Ok(r) => r,
                    Err(_) => {
                        println!("VIOLATION hang on {}", short(&req));
                        std::process::exit(2);
                    }
                };
                if judge(&req, &cfg, &r).is_some() {
                    if matches!(r, Err(Error::Crashed)) {
                        crashed += 1;
                    } else {
                        bad += 1;
                        println!("VIOLATION {} -> {}", short(&req), describe(&r));
                    }
                }
                let gap = rng.below(6);
                if gap > 0 {
                    async_std::task::sleep(Duration::from_millis(gap)).await;
                }
            }
            println!("race: {} requests, {} innocent requests answered Crashed, {} other violations", id, crashed, bad);
        }
        "delayed" => {
            // The child dies in the gap *after* answering request 1 (a background
            // thread exits the process). Request 2 is an innocent later request.
            let cfg = Cfg {
                timeout_ms: 2000,
                mem_limit: MEM_LIMIT,
            };
            let mut r = Runner::new(cfg, 3).await;
            r.verbose = true;
            let gapms = arg(2, 200);
            let vs = r.run_seq("DNN", &[gapms, 0, 0, 0]).await;
            for v in &vs {
                println!("VIOLATION {}", v);
            }
        }
        "sigint" => {
            // SIGINT delivered to the parent only, while NO request is in flight.
            let cfg = Cfg {
                timeout_ms: 2000,
                mem_limit: MEM_LIMIT,
            };
            let mut r = Runner::new(cfg, 3).await;
            r.verbose = true;
            let _ = r.run_seq("N", &[0, 0]).await;
            let me = std::process::id();
            let _ = std::process::Command::new("kill")
                .arg("-INT")
                .arg(format!("{}", me))
                .status();
            async_std::task::sleep(Duration::from_millis(200)).await;
            let vs = r.run_seq("NN", &[0, 0, 0]).await;
            for v in &vs {
                println!("VIOLATION {}", v);
            }
        }
        "second" => {
            let cfg = Cfg {
                timeout_ms: 2000,
                mem_limit: MEM_LIMIT,
            };
            let s1 = Sandbox::<Svc>::new(cfg.clone()).await.unwrap();
            println!("s1: {}", describe(&s1.execute(Req::Normal { id: 1 }).await));
            let s2 = Sandbox::<Svc>::new(cfg.clone()).await.unwrap();
            println!("s2: {}", describe(&s2.execute(Req::Normal { id: 2 }).await));
        }
        "big4g" => {
            // Response of more than 4 GiB: the frame length is a u32.
            let cfg = Cfg {
                timeout_ms: 120_000,
                mem_limit: 20 * 1024 * 1024 * 1024,
            };
            let mut r = Runner::new(cfg.clone(), 3).await;
            r.verbose = true;
            let n: usize = (1usize << 32) + 64;
            let req = Req::LargeResp { id: 1, n };
            let t = Instant::now();
            let reply = r.sandbox.execute(req.clone()).await;
            println!("4GiB response -> {} in {:?}", describe(&reply), t.elapsed());
            for id in 2..5u64 {
                let req = Req::Normal { id };
                let t = Instant::now();
                let reply = async_std::future::timeout(
                    Duration::from_secs(30),
                    r.sandbox.execute(req.clone()),
                )
                .await;
                match reply {
                    Ok(reply) => {
                        println!("request {} -> {} in {:?}", id, describe(&reply), t.elapsed());
                        if let Some(v) = judge(&req, &cfg, &reply) {
                            println!("VIOLATION {}", v);
                        }
                    }
                    Err(_) => {
                        println!("VIOLATION request {} no reply in 30s", id);
                        break;
                    }
                }
            }
        }
        "fds" => {
            let cfg = Cfg {
                timeout_ms: 100,
                mem_limit: MEM_LIMIT,
            };
            let mut r = Runner::new(cfg, 3).await;
            let count = |what: &str| {
                let n = std::fs::read_dir("/proc/self/fd").map(|d| d.count()).unwrap_or(0);
                let out = std::process::Command::new("sh")
                    .arg("-c")
                    .arg(format!(
                        "ps --ppid {} -o stat= | grep -c Z",
                        std::process::id()
                    ))
                    .output()
                    .unwrap();
                println!(
                    "{}: fds={} zombies={}",
                    what,
                    n,
                    String::from_utf8_lossy(&out.stdout).trim()
                );
            };
            count("start");
            for i in 0..arg(2, 300) {
                let s = ["P", "E", "A", "S", "X", "B"][(i % 6) as usize];
                for v in r.run_seq(s, &[0, 0]).await {
                    println!("VIOLATION {}", v);
                }
            }
            count("end");
            println!("fds: {} requests {} violations", r.requests, r.violations);
        }
        _ => {
            println!("see the header of this file for usage");
        }
    }
    Ok(())
}
