#!/bin/sh
# C18 finding 1 reproducer: the sandboxed REPL of the real rink cli never answers
# when the child prints a load diagnostic on its stdout (= the protocol pipe).
# Usage: sh c18_cli_hang.sh            (currency fetch fails -> hang)
#        sh c18_cli_hang.sh control    (currency disabled   -> works)
#        sh c18_cli_hang.sh defs       (currency disabled, user definitions.units with an unknown directive -> hang)
set -e
cd "$(dirname "$0")"
CARGO_NET_OFFLINE=true cargo build --release --offline -j4 -p rink >/dev/null 2>&1
D=$(mktemp -d /tmp/c18_cli.XXXXXX)
mkdir -p "$D/config/rink" "$D/cache" "$D/data"
CUR=true
[ "$1" = "control" ] && CUR=false
[ "$1" = "defs" ] && CUR=false
cat > "$D/config/rink/config.toml" <<EOT
[limits]
enabled = true
timeout = "2s"
memory = "100MB"

[currency]
enabled = $CUR
endpoint = "http://127.0.0.1:9/data.json"
timeout = "1s"
EOT
[ "$1" = "defs" ] && printf '!frobnicate\nmyfoo 3 m\n' > "$D/config/rink/definitions.units"
printf '1+1\n2 m -> ft\nquit\n' | RUST_BACKTRACE=0 HOME="$D" XDG_CONFIG_HOME="$D/config" XDG_CACHE_HOME="$D/cache" XDG_DATA_HOME="$D/data" \
    timeout 20 target/release/rink && rc=0 || rc=$?
echo "exit status: $rc  (124 = no reply to '1+1' within 20 s, killed by timeout)"
