// C14 findings: one test per root cause. Each test asserts what the property requires,
// so every test in this file FAILS on the current code and prints what the code returned.
use chrono::{FixedOffset, TimeZone, Utc};
use rink_core::parsing::text_query;
use rink_core::Context;

fn ctx_at(now: chrono::DateTime<chrono::Local>) -> Context {
    let mut ctx = rink_core::simple_context().unwrap();
    ctx.set_time(now);
    ctx.use_humanize = false;
    ctx
}
fn ctx() -> Context {
    // same fixed "now" as core/tests/query.rs: 2016-08-02 15:33:19 -04:00
    ctx_at(
        FixedOffset::east_opt(-4 * 3600)
            .unwrap()
            .with_ymd_and_hms(2016, 8, 2, 15, 33, 19)
            .unwrap()
            .into(),
    )
}
fn run(ctx: &Context, line: &str) -> Result<String, String> {
    let r = std::panic::catch_unwind(std::panic::AssertUnwindSafe(|| {
        let mut iter = text_query::TokenIterator::new(line.trim()).peekable();
        let expr = text_query::parse_query(&mut iter);
        ctx.eval_query(&expr)
    }));
    match r {
        Ok(Ok(v)) => Ok(v.to_string()),
        Ok(Err(e)) => Err(e.to_string()),
        Err(_) => Err("PANIC".to_string()),
    }
}
fn show(ctx: &Context, q: &str) -> Result<String, String> {
    let r = run(ctx, q);
    println!("{:<60} => {:?}", q, r);
    r
}

/// F1: a UTC offset of 24 h or more in a date literal is not refused; it is silently read as +00:00.
#[test]
fn f1_literal_offset_24h_or_more_is_silently_utc() {
    let ctx = ctx();
    let mut bad = 0;
    for q in [
        "#2020-01-01 10:00:00 +24:00#",
        "#2020-01-01 10:00:00 -24:00#",
        "#2020-01-01 10:00:00 +2400#",
        "#2020-01-01 10:00:00 +99:59#",
        "#2020-01-01 10:00:00 -9999#",
        "#jan 1, 2020 10:00 pm +30:00#",
        "#10:00 +48:00#",
        // minutes of the 4-digit form are not checked either:
        "#2020-01-01 10:00:00 +0099#",
        "#2020-01-01 10:00:00 +2360#",
    ] {
        if show(&ctx, q).is_ok() {
            bad += 1;
        }
    }
    // for comparison, conversions do refuse it:
    show(&ctx, "#2020-01-01 10:00:00# -> +24:00").unwrap_err();
    assert_eq!(bad, 0, "{} literals with an out-of-range offset were accepted", bad);
}

/// F2: when the date part of a literal cannot be resolved but the time part can,
/// the date is silently replaced by today's date.
#[test]
fn f2_unresolvable_date_with_time_becomes_today() {
    let ctx = ctx();
    let mut bad = 0;
    for q in [
        "#2021-02-29 10:00#",           // not a leap year
        "#2020-02-30T10:00:00 +05:00#", // no such day
        "#apr 31, 2020 10:00 pm#",
        "#2020 apr 31 22:00#",
        "#2021-366 10:00#",              // ordinal 366 in a non-leap year
        "#Fri jan 1 10:00:00 1970#",     // 1970-01-01 was a Thursday
    ] {
        if show(&ctx, q).is_ok() {
            bad += 1;
        }
    }
    // without the time the same dates are refused:
    show(&ctx, "#2021-02-29#").unwrap_err();
    show(&ctx, "#Fri jan 1 1970#").unwrap_err();
    assert_eq!(bad, 0, "{} impossible dates were accepted (as today's date)", bad);
}

/// F3: when the time part cannot be resolved but the date can, the time is silently replaced by 00:00:00.
#[test]
fn f3_unresolvable_time_becomes_midnight() {
    let ctx = ctx();
    let mut bad = 0;
    for q in [
        "#2020-01-01 10:60#",
        "#2020-01-01T23:60:30 +05:00#",
        "#jan 1, 2020 11:60 pm#",
        "#Wed jan 1 10:60 2020#",
        "#2020-01-01 10:00:61.5#", // seconds with a fraction are not range checked
        "#2020-01-01 10:00:99.999999999 -03:00#",
    ] {
        if show(&ctx, q).is_ok() {
            bad += 1;
        }
    }
    // seconds without fraction are range checked:
    show(&ctx, "#2020-01-01 10:00:61#").unwrap_err();
    assert_eq!(bad, 0, "{} impossible times were accepted (as midnight)", bad);
}

/// F4: second 60 is accepted in any minute; for such instants (d + t) - d != t.
#[test]
fn f4_leap_second_instants_break_add_sub() {
    let ctx = ctx();
    let mut bad = 0;
    for (q, want) in [
        ("(#2020-01-01 10:00:60# + 1 day) - #2020-01-01 10:00:60# -> s", "86400 second (time)"),
        ("(#2020-01-01 23:59:60# + 1 s) - #2020-01-01 23:59:60# -> s", "1 second (time)"),
        ("(#2020-01-01 23:59:60.5# + 0.5 s) - #2020-01-01 23:59:60.5# -> s", "0.5 second (time)"),
        ("(#2016-12-31 23:59:60# + 1 hour) - #2016-12-31 23:59:60# -> s", "3600 second (time)"),
        // d1 - d2: the same pair of clock readings differs depending on whether midnight is crossed
        ("#2020-01-01 10:01:00# - #2020-01-01 10:00:60# -> s", "0 second (time)"),
        ("#2020-01-02 00:00:00# - #2020-01-01 23:59:60# -> s", "0 second (time)"),
    ] {
        let r = show(&ctx, q);
        if r.as_deref() != Ok(want) {
            println!("      expected {}", want);
            bad += 1;
        }
    }
    show(&ctx, "#2020-01-01 10:00:60# + 1 day").ok();
    assert_eq!(bad, 0);
}

/// F5: "today" literals with a named zone panic when today's date has a DST transition in that zone.
#[test]
fn f5_today_literal_in_named_zone_panics_on_dst_day() {
    let mut bad = 0;
    // US spring-forward day: 02:30 does not exist
    let c = ctx_at(Utc.with_ymd_and_hms(2021, 3, 14, 20, 0, 0).unwrap().into());
    for q in ["#02:30 US/Pacific#", "#02:30:00 am US/Pacific#", "#2021-02-30 02:30 US/Pacific#"] {
        if show(&c, q) == Err("PANIC".to_string()) {
            bad += 1;
        }
    }
    // US fall-back day: 01:30 happens twice
    let c = ctx_at(Utc.with_ymd_and_hms(2021, 11, 7, 20, 0, 0).unwrap().into());
    for q in ["#01:30 US/Pacific#", "#01:30 am US/Pacific#"] {
        if show(&c, q) == Err("PANIC".to_string()) {
            bad += 1;
        }
    }
    // the full-date form of the same local times is handled (error / earliest):
    show(&c, "#2021-03-14 02:30 US/Pacific#").unwrap_err();
    show(&c, "#2021-11-07 01:30 US/Pacific#").unwrap();
    assert_eq!(bad, 0, "{} literals panicked", bad);
}

/// F6: the documented ISO week pattern and the `--MM-DD` pattern never denote the date they describe.
#[test]
fn f6_week_and_monthday_patterns_never_work() {
    let ctx = ctx(); // now = 2016-08-02
    let mut bad = 0;
    for (q, want_prefix) in [
        ("#2020-W01 10:00#", "20"),   // anything in ISO week 1 of 2020 (2019-12-30..2020-01-05); we get 2016-08-02
        ("#--02-05 10:00#", "2016-02-05 10:00:00"),
        ("#--12-25 08:30:00 +01:00#", "2016-12-25 08:30:00"),
    ] {
        match show(&ctx, q) {
            Ok(s) if s.starts_with(want_prefix) && !s.starts_with("2016-08-0") => {}
            _ => bad += 1,
        }
    }
    for q in ["#2020-W01#", "#--02-05#", "#--12-25#", "#feb 5#", "#feb 5 10:00 am#"] {
        if show(&ctx, q).is_err() {
            bad += 1;
        }
    }
    assert_eq!(bad, 0, "{} literals of documented patterns gave today's date or an error", bad);
}

/// F7: the rfc3339 field of a date reply denotes a different instant when the zone offset has seconds.
#[test]
fn f7_rfc3339_field_changes_instant_for_sub_minute_offsets() {
    let ctx = ctx();
    let mut bad = 0;
    for q in [
        "#1930-01-01 00:00:00 +00:00# -> \"Europe/Amsterdam\"", // +00:19:32 until 1937
        "#1800-01-01 00:00:00 +00:00# -> \"US/Pacific\"",       // LMT -07:52:58
        "#1930-01-01 00:00 Europe/Amsterdam#",
    ] {
        let mut iter = text_query::TokenIterator::new(q).peekable();
        let expr = text_query::parse_query(&mut iter);
        let reply = ctx.eval_query(&expr).unwrap();
        let d = match reply {
            rink_core::output::QueryReply::Date(d) => d,
            _ => panic!(),
        };
        let from_rfc = chrono::DateTime::parse_from_rfc3339(&d.rfc3339).unwrap().with_timezone(&Utc);
        // the true instant, via converting the same expression to +00:00
        let lhs = q.split(" -> ").next().unwrap();
        let utc = run(&ctx, &format!("{} -> +00:00", lhs)).unwrap();
        println!("{}\n    string={}  rfc3339={}  (= {} UTC)   true instant = {}", q, d.string, d.rfc3339, from_rfc.format("%Y-%m-%d %H:%M:%S"), utc);
        if !utc.starts_with(&from_rfc.format("%Y-%m-%d %H:%M:%S").to_string()) {
            bad += 1;
        }
    }
    assert_eq!(bad, 0, "{} replies whose rfc3339 field is a different instant", bad);
}

/// F8: 46 of the 594 zone names cannot be used in a literal (names containing '-', '+' or digits).
#[test]
fn f8_zone_names_with_dash_plus_or_digit_are_refused_in_literals() {
    let ctx = ctx();
    let mut refused = vec![];
    for tz in chrono_tz::TZ_VARIANTS.iter() {
        let q = format!("#2020-06-15 12:34:56 {}#", tz.name());
        if run(&ctx, &q).is_err() {
            refused.push(tz.name());
        }
        // the conversion side accepts every one of them (except "GB")
    }
    show(&ctx, "#2020-06-15 12:34:56 America/Port-au-Prince#").ok();
    show(&ctx, "#2020-06-15 12:34:56 Etc/GMT+5#").ok();
    show(&ctx, "#2020-06-15 12:34:56 EST5EDT#").ok();
    show(&ctx, "#2020-06-15 12:34:56# -> \"America/Port-au-Prince\"").ok();
    assert!(refused.is_empty(), "{} zone names refused: {:?}", refused.len(), refused);
}
