// Minimal reproductions for the C10 findings. Each test asserts what the
// property requires, so each FAILS on the current code.

use rink_core::parsing::text_query;

fn run(input: &str) -> Result<String, String> {
    let ctx = rink_core::simple_context().unwrap();
    let mut iter = text_query::TokenIterator::new(input.trim()).peekable();
    let expr = text_query::parse_query(&mut iter);
    ctx.eval_query(&expr)
        .map(|v| v.to_string())
        .map_err(|e| e.to_string())
}

fn must_refuse(queries: &[&str]) {
    let mut bad = vec![];
    for q in queries {
        if let Ok(out) = run(q) {
            bad.push(format!("{:?} was accepted => {}", q, out));
        }
    }
    assert!(bad.is_empty(), "\n{}", bad.join("\n"));
}

/// Finding 1: a scale operator on the right of `=` in a conversion target.
#[test]
fn f1_inline_definition_target() {
    // sanity: the same thing without `name =` is refused
    assert!(run("300 K -> 1 degC").is_err());
    must_refuse(&[
        "300 K -> kelvin = 1 degC", // prints `approx. 1.094291 kelvin (temperature)`
        "300 K -> x = 1 degC",
        "5 degC -> x = 0 °F",
        "300 K -> (x = 1 ℃) / 2",
        "water -> s = 1000 degN",
    ]);
}

/// Finding 2: a scale operator inside an exponent or an `of` operand of a target.
#[test]
fn f2_exponent_and_of_operand_target() {
    must_refuse(&[
        "300 K -> K^((1 degC)/(1 degC))",
        "300 K -> K^(1 °F / 1 °F)",
        "300 K^2 -> K^((275.15 celsius)/(1 celsius))",
        "1 kg/m^3 -> density of (water ((1 degC)/(274.15 K)))",
    ]);
}

/// Finding 3: tokens after a scale target are dropped when a comment or a
/// newline separates them (incomplete fix 91c0358), and a scale after a
/// comma is dropped too.
#[test]
fn f3_scale_target_followed_by_more_tokens() {
    // sanity: without the comment these are refused
    assert!(run("5 K -> degC m").is_err());
    assert!(run("5 K -> degC degF").is_err());
    must_refuse(&[
        "5 K -> degC /**/ m",
        "5 K -> degC /* */ degF",
        "5 K -> degC /**/ ^2",
        "5 K -> degC\nm",
        "5 K -> degC\ndegF",
        "300 K -> K, degC",
    ]);
}

/// Finding 4: explicit `*` and `/` bind looser than the scale operator, the
/// manual says the opposite.
#[test]
fn f4_explicit_mul_div_operand() {
    assert_eq!(run("6 degC -> degC").unwrap(), "6 °C (temperature)");
    assert_eq!(run("2 3 degC -> degC").unwrap(), "6 °C (temperature)");
    assert_eq!(run("2*3 degC -> degC").unwrap(), "6 °C (temperature)");
    assert_eq!(run("1/2 degC -> degC").unwrap(), "0.5 °C (temperature)");
}
