#!/usr/bin/env python3
"""C20 finding 2: a 200 response whose *header block* is cut (connection closed after the status line,
before the header that carries Content-Length / Transfer-Encoding has fully arrived) is taken as a
successful download of 0 bytes: the good (stale) cache is replaced by an empty file.

usage: python3 hunt_c20/repro_hdrcut.py
"""
import os, sys, socket
sys.path.insert(0, os.path.dirname(__file__))
import matrix, faultserver

srv = faultserver.Server(matrix.NEW, 0)
s = socket.socket(); s.bind(("127.0.0.1", 0)); dead = s.getsockname()[1]; s.close()
full = b"HTTP/1.1 200 OK\r\nContent-Type: application/json\r\nContent-Length: %d\r\nConnection: close\r\n\r\n" % len(matrix.NEW)
bad = 0
for k in (16, 17, 30, 49, 71, 72, 93):
    for entry, args in (("startup", matrix.QUERIES), ("fetch", ["--fetch-currency"])):
        d, p, prior = matrix.setup("hc", "stale", "http://127.0.0.1:%d/cuthdr/%d/currency.json" % (srv.port, k))
        rc, out, err, dt = matrix.run(d, args)
        after = matrix.read(p)
        what = "PRIOR" if after == prior else "NEW" if after == matrix.NEW else "CORRUPT(len=%d)" % len(after)
        # next start, server unreachable
        open(d + "/config/rink/config.toml", "w").write(
            '[currency]\nenabled=true\nendpoint="http://127.0.0.1:%d/x"\ncache_duration="1h"\ntimeout="400ms"\n' % dead)
        rc2, out2, err2, dt2 = matrix.run(d, matrix.QUERIES)
        ok = after in (prior, matrix.NEW) and "2 USD" in out2 and (entry == "fetch" or "2 USD" in out)
        bad += not ok
        print("%-4s cut after %2d header bytes (%r) entry=%-7s rc=%s cache=%s; this start shows stale rate: %s; next start shows a rate: %s%s"
              % ("ok" if ok else "FAIL", k, full[max(0, k - 12):k].decode(), entry, rc, what,
                 "2 USD" in out if entry == "startup" else "n/a", "2 USD" in out2,
                 ("  [" + out.strip().splitlines()[-1] + "]") if entry == "fetch" else ""))
print("failures:", bad)
sys.exit(1 if bad else 0)
