#!/usr/bin/env python3
"""C20 finding 1: with `[limits] enabled = true` (sandboxed interactive mode), any failed currency
refresh makes rink hang at startup: it never answers a query, although a stale cache exists.

usage: python3 hunt_c20/repro_sandbox.py
"""
import os, sys, socket
sys.path.insert(0, os.path.dirname(__file__))
import matrix, faultserver

srv = faultserver.Server(matrix.NEW, 0)
s = socket.socket(); s.bind(("127.0.0.1", 0)); dead = s.getsockname()[1]; s.close()
bad = 0
for limits in (False, True):
    for mode in ("ok/0", "status/500", "status/301", "cutcl/4096", "stall/2", "REFUSED"):
        for state in ("stale", "absent"):
            url = "http://127.0.0.1:%d/%s/currency.json" % (srv.port, mode)
            if mode == "REFUSED":
                url = "http://127.0.0.1:%d/currency.json" % dead
            d, p, prior = matrix.setup("sb", state, url, extra_cfg="[limits]\nenabled=true\n" if limits else "")
            rc, out, err, dt = matrix.run(d, [], stdin=b"1 EUR -> USD\n1 m -> cm\n", timeout=10)
            answered = "100 centimeter" in out
            stale_used = "2 USD" in out
            ok = rc == 0 and answered and (mode == "ok/0" or state == "absent" or stale_used)
            cache_ok = matrix.read(p) in (prior, matrix.NEW)
            print("%-4s limits.enabled=%-5s server=%-11s cache=%-6s rc=%-4s %.1fs answered_non_currency=%s stale_rate_used=%s cache_intact=%s"
                  % ("ok" if ok else "FAIL", limits, mode, state, rc, dt, answered, stale_used, cache_ok))
            bad += not ok
print("failures:", bad)
sys.exit(1 if bad else 0)
