// C11 hunt: printed expressions re-parse to the same expression.
// Not part of the upstream test-suite; scratch file for the hunt.

use rink_core::ast::{BinOpExpr, Expr, ExprString, UnaryOpExpr};
use rink_core::output::{Digits, ExprReply};
use rink_core::parsing::text_query::{parse_expr, Token, TokenIterator};
use std::collections::BTreeMap;
use std::convert::TryFrom;

fn parse_all(input: &str) -> Result<Expr, String> {
    let mut iter = TokenIterator::new(input).peekable();
    let expr = parse_expr(&mut iter);
    match iter.next() {
        Some(Token::Eof) => Ok(expr),
        other => Err(format!("trailing token {:?}", other)),
    }
}

/// true if the tree is outside the property's scope (error nodes, dates,
/// inexactly printed literals).
fn known_bad_name(name: &str) -> bool {
    // ALREADY KNOWN: names that are keywords or not plain identifiers are printed bare.
    let mut iter = TokenIterator::new(name);
    let first = iter.next();
    let second = iter.next();
    let single_ident = match (first, second) {
        (Some(Token::Ident(ref s)), Some(Token::Eof)) => s == name && !name.starts_with('"') && !name.starts_with('\\'),
        _ => false,
    };
    if !single_ident {
        return true;
    }
    // "plain identifier": starts with a letter or `_`, continues with letters, digits, `_`
    let mut chars = name.chars();
    let c0 = chars.next().unwrap();
    if !(c0.is_alphabetic() || c0 == '_') || !chars.all(|c| c.is_alphanumeric() || c == '_') {
        return true;
    }
    if rink_core::ast::Function::from_name(name).is_some() {
        return true;
    }
    matches!(
        name,
        "of" | "int" | "international" | "UKSJJ" | "UKB" | "UKC" | "UKK" | "imperial" | "british" | "UK"
            | "survey" | "geodetic" | "irish" | "aust" | "australian" | "roman" | "egyptian" | "greek"
            | "olympic"
    )
}

fn out_of_scope(e: &Expr) -> bool {
    match e {
        Expr::Unit { name } => known_bad_name(name),
        Expr::Of { property, .. } if known_bad_name(property) => true,
        Expr::Quote { .. } => false,
        Expr::Const { value } => !value.to_string(10, Digits::Default).0,
        Expr::Date { .. } | Expr::Error { .. } => true,
        Expr::BinOp(BinOpExpr { left, right, .. }) => out_of_scope(left) || out_of_scope(right),
        Expr::UnaryOp(UnaryOpExpr { expr, .. }) => out_of_scope(expr),
        Expr::Mul { exprs } => exprs.iter().any(out_of_scope),
        Expr::Of { expr, .. } => out_of_scope(expr),
        Expr::Call { args, .. } => args.iter().any(out_of_scope),
    }
}

fn render_parts(parts: &serde_json::Value, out: &mut Vec<String>) {
    for p in parts.as_array().unwrap() {
        match p["type"].as_str().unwrap() {
            "literal" => out.push(p["text"].as_str().unwrap().to_owned()),
            "unit" => out.push(p["name"].as_str().unwrap().to_owned()),
            "property" => {
                out.push(p["property"].as_str().unwrap().to_owned());
                out.push("of".to_owned());
                render_parts(&p["subject"], out);
            }
            "error" => out.push("<error>".to_owned()),
            x => panic!("unknown part {}", x),
        }
    }
}

fn reply_text(e: &Expr) -> String {
    let v = serde_json::to_value(ExprReply::from(e)).unwrap();
    let mut out = vec![];
    render_parts(&v["exprs"], &mut out);
    out.join(" ")
}

#[derive(Default)]
struct Failures {
    // key: class, value: (count, shortest example)
    by_class: BTreeMap<String, (usize, String)>,
    checked: usize,
}

impl Failures {
    fn record(&mut self, class: String, example: String) {
        let ent = self.by_class.entry(class).or_insert((0, example.clone()));
        ent.0 += 1;
        if example.len() < ent.1.len() {
            ent.1 = example;
        }
    }

    fn report(&self, title: &str) {
        println!("==== {}: checked {} trees, {} failure classes", title, self.checked, self.by_class.len());
        let mut v: Vec<_> = self.by_class.iter().collect();
        v.sort_by_key(|(_, (n, _))| std::cmp::Reverse(*n));
        for (class, (n, ex)) in v.iter().take(60) {
            println!("  [{}] x{}  e.g. {}", class, n, ex);
        }
    }
}

fn shape(e: &Expr) -> String {
    // coarse "shape" two levels deep, for classification of failures
    fn head(e: &Expr) -> String {
        match e {
            Expr::Unit { .. } => "U".into(),
            Expr::Quote { .. } => "Q".into(),
            Expr::Const { .. } => "C".into(),
            Expr::Date { .. } => "D".into(),
            Expr::Error { .. } => "E".into(),
            Expr::BinOp(b) => format!("{:?}", b.op),
            Expr::UnaryOp(u) => format!("{:?}", u.op),
            Expr::Mul { .. } => "Mul".into(),
            Expr::Of { .. } => "Of".into(),
            Expr::Call { .. } => "Call".into(),
        }
    }
    match e {
        Expr::BinOp(b) => format!("{:?}({},{})", b.op, head(&b.left), head(&b.right)),
        Expr::UnaryOp(u) => format!("{:?}({})", u.op, head(&u.expr)),
        Expr::Mul { exprs } => format!(
            "Mul[{}]",
            exprs.iter().map(head).collect::<Vec<_>>().join(",")
        ),
        Expr::Of { expr, .. } => format!("Of({})", head(expr)),
        Expr::Call { args, .. } => format!(
            "Call({})",
            args.iter().map(head).collect::<Vec<_>>().join(",")
        ),
        x => head(x),
    }
}

/// find the smallest sub-tree that by itself fails to round trip through f
fn minimal_failing<'a>(e: &'a Expr, f: &dyn Fn(&Expr) -> Option<String>) -> &'a Expr {
    let kids: Vec<&Expr> = match e {
        Expr::BinOp(b) => vec![&b.left, &b.right],
        Expr::UnaryOp(u) => vec![&u.expr],
        Expr::Mul { exprs } => exprs.iter().collect(),
        Expr::Of { expr, .. } => vec![expr],
        Expr::Call { args, .. } => args.iter().collect(),
        _ => vec![],
    };
    for k in kids {
        if f(k).is_some() {
            return minimal_failing(k, f);
        }
    }
    e
}

fn check_display(e: &Expr) -> Option<String> {
    let text = e.to_string();
    match parse_all(&text) {
        Ok(back) if &back == e => None,
        Ok(back) => Some(format!("printed `{}` reparsed as `{}` ({:?})", text, back, shape(&back))),
        Err(err) => Some(format!("printed `{}` -> {}", text, err)),
    }
}

fn check_reply(e: &Expr) -> Option<String> {
    let text = reply_text(e);
    match parse_all(&text) {
        Ok(back) if &back == e => None,
        Ok(back) => Some(format!("reply `{}` reparsed as `{}`", text, back)),
        Err(err) => Some(format!("reply `{}` -> {}", text, err)),
    }
}

fn check_serde(e: &Expr) -> Option<String> {
    let json = serde_json::to_string(&ExprString(e.clone())).unwrap();
    match serde_json::from_str::<ExprString>(&json) {
        Ok(back) if &back.0 == e => None,
        Ok(back) => Some(format!("json {} came back as `{}`", json, back.0)),
        Err(err) => Some(format!("json {} -> {}", json, err)),
    }
}

fn check_all(src: &str, e: &Expr, fails: &mut Failures) {
    if out_of_scope(e) {
        return;
    }
    fails.checked += 1;
    if let Some(_) = check_display(e) {
        let min = minimal_failing(e, &check_display);
        let msg = check_display(min).unwrap();
        fails.record(format!("display {}", shape(min)), format!("src `{}`: {}", src, msg));
    }
    if let Some(_) = check_reply(e) {
        let min = minimal_failing(e, &check_reply);
        let msg = check_reply(min).unwrap();
        fails.record(format!("reply {}", shape(min)), format!("src `{}`: {}", src, msg));
    }
    if let Some(_) = check_serde(e) {
        let min = minimal_failing(e, &check_serde);
        let msg = check_serde(min).unwrap();
        fails.record(format!("serde {}", shape(min)), format!("src `{}`: {}", src, msg));
    }
}

struct Rng(u64);
impl Rng {
    fn next(&mut self) -> u64 {
        self.0 ^= self.0 << 13;
        self.0 ^= self.0 >> 7;
        self.0 ^= self.0 << 17;
        self.0
    }
    fn below(&mut self, n: usize) -> usize {
        (self.next() % n as u64) as usize
    }
}

const BIN: &[&str] = &[
    " + ", " - ", " ", " * ", " / ", "|", "^", " = ", " << ", " >> ", " mod ", " and ", " or ",
    " xor ", " per ",
];

fn combos(bin: &[&str], leaves: &[&str], sub: &[String], all: &[String]) -> Vec<String> {
    // `sub`: trees of the previous level exactly? we simply use all smaller trees.
    let _ = sub;
    let mut out: Vec<String> = leaves.iter().map(|s| s.to_string()).collect();
    for l in all {
        out.push(format!("-({})", l));
        out.push(format!("+({})", l));
        out.push(format!("({}) °C", l));
        out.push(format!("({})%", l));
        out.push(format!("p of ({})", l));
        out.push(format!("sin({})", l));
    }
    for l in all {
        for r in all {
            for op in bin {
                out.push(format!("({}){}({})", l, op, r));
            }
            out.push(format!("hypot({}, {})", l, r));
        }
    }
    out
}

#[test]
fn exhaustive_full_ops_two_levels() {
    let leaves = ["a", "1", "'q'"];
    let l0: Vec<String> = leaves.iter().map(|s| s.to_string()).collect();
    let l1 = combos(BIN, &leaves, &l0, &l0);
    let l2 = combos(BIN, &leaves, &l1, &l1);
    let mut fails = Failures::default();
    for src in l2.iter() {
        let e = parse_all(src).unwrap();
        check_all(src, &e, &mut fails);
    }
    fails.report("exhaustive, all operators, 2 operator levels");
    assert!(fails.by_class.is_empty());
}

#[test]
fn exhaustive_reduced_ops_three_levels() {
    let leaves = ["a"];
    let bin = [" + ", " ", " / ", "^", " = "];
    let l0: Vec<String> = leaves.iter().map(|s| s.to_string()).collect();
    let l1 = combos(&bin, &leaves, &l0, &l0);
    let l2 = combos(&bin, &leaves, &l1, &l1);
    let mut fails = Failures::default();
    // third level generated on the fly
    let visit = |src: String, fails: &mut Failures| {
        let e = parse_all(&src).unwrap();
        check_all(&src, &e, fails);
    };
    for l in &l2 {
        visit(format!("-({})", l), &mut fails);
        visit(format!("+({})", l), &mut fails);
        visit(format!("({}) °C", l), &mut fails);
        visit(format!("({})%", l), &mut fails);
        visit(format!("p of ({})", l), &mut fails);
        visit(format!("sin({})", l), &mut fails);
    }
    for l in &l2 {
        for r in &l2 {
            for op in &bin {
                visit(format!("({}){}({})", l, op, r), &mut fails);
            }
            visit(format!("hypot({}, {})", l, r), &mut fails);
        }
    }
    fails.report("exhaustive, reduced operators, 3 operator levels");
    assert!(fails.by_class.is_empty());
}

fn random_tree(rng: &mut Rng, depth: usize) -> String {
    const LEAVES: &[&str] = &[
        "a", "b", "1", "2.5", "'q'", "%", "1e30", "0x1F", "1e-12", "int foot", "0.001", "sin()",
        "007", "12_000", ".5", "1ee3", "0b101", "0o17", "1.50", "survey mile",
    ];
    if depth == 0 || rng.below(5) == 0 {
        return LEAVES[rng.below(LEAVES.len())].to_string();
    }
    let paren = |rng: &mut Rng, s: String| -> String {
        // mostly parenthesise, sometimes leave bare to explore the parser's own grouping
        if rng.below(4) == 0 {
            s
        } else {
            format!("({})", s)
        }
    };
    match rng.below(30) {
        0 => format!("-{}", { let s = random_tree(rng, depth - 1); paren(rng, s) }),
        1 => format!("+{}", { let s = random_tree(rng, depth - 1); paren(rng, s) }),
        2 => format!("{} °C", { let s = random_tree(rng, depth - 1); paren(rng, s) }),
        3 => format!("{}%", { let s = random_tree(rng, depth - 1); paren(rng, s) }),
        4 => format!("p of {}", { let s = random_tree(rng, depth - 1); paren(rng, s) }),
        5 => format!("sin({})", random_tree(rng, depth - 1)),
        6 => format!("ln {}", { let s = random_tree(rng, depth - 1); paren(rng, s) }),
        7 => format!(
            "atan2({}, {})",
            random_tree(rng, depth - 1),
            random_tree(rng, depth - 1)
        ),
        8 => format!(
            "log({}, {}, {})",
            random_tree(rng, depth - 1),
            random_tree(rng, depth - 1),
            random_tree(rng, depth - 1)
        ),
        9 => {
            let a = random_tree(rng, depth - 1);
            let b = random_tree(rng, depth - 1);
            let c = random_tree(rng, depth - 1);
            format!("{} {} {}", paren(rng, a), paren(rng, b), paren(rng, c))
        }
        10 => format!("{} degF", { let s = random_tree(rng, depth - 1); paren(rng, s) }),
        11 => format!("{} °Ré", { let s = random_tree(rng, depth - 1); paren(rng, s) }),
        _ => {
            let op = [
                " + ", " - ", " ", " * ", " / ", "|", "^", " = ", " << ", " >> ", " mod ", " and ",
                " or ", " xor ", " per ", "**", " -", " +", "*-", "/-", "^-", "^+",
            ];
            let op = op[rng.below(op.len())];
            let a = random_tree(rng, depth - 1);
            let b = random_tree(rng, depth - 1);
            format!("{}{}{}", paren(rng, a), op, paren(rng, b))
        }
    }
}

#[test]
fn random_trees() {
    let mut rng = Rng(0x9E3779B97F4A7C15);
    let mut fails = Failures::default();
    let n: usize = std::env::var("C11_N").ok().and_then(|x| x.parse().ok()).unwrap_or(1_000_000);
    for _ in 0..n {
        let depth = 1 + rng.below(6);
        let src = random_tree(&mut rng, depth);
        if let Ok(e) = parse_all(&src) {
            check_all(&src, &e, &mut fails);
        }
    }
    fails.report("random trees");
    assert!(fails.by_class.is_empty());
}

#[test]
fn token_soup() {
    const TOKS: &[&str] = &[
        "a", "b", "1", "2.5", "(", ")", "(", ")", "+", "-", "*", "/", "|", "^", "**", "=", "<<",
        ">>", "mod", "and", "or", "xor", "per", "°C", "degF", "kelvin", "%", "of", "p of", "sin",
        "sin(", "hypot(", ",", "int", "'q'", "1e3", "0x1F", "ln", "log(", "atan2(", "−", "∕",
        "/* c */", "imperial", "-", "a", "1", "\\u3b1", "\"x y\"", "delisle", "°N", "'a\\tb'", "''", "' '",
    ];
    let mut rng = Rng(0xDEADBEEFCAFEF00D);
    let mut fails = Failures::default();
    let n: usize = std::env::var("C11_N").ok().and_then(|x| x.parse().ok()).unwrap_or(1_000_000);
    for _ in 0..n * 3 {
        let len = 1 + rng.below(9);
        let mut src = String::new();
        for i in 0..len {
            if i > 0 {
                src.push(' ');
            }
            src.push_str(TOKS[rng.below(TOKS.len())]);
        }
        if let Ok(e) = parse_all(&src) {
            check_all(&src, &e, &mut fails);
        }
    }
    fails.report("token soup");
    assert!(fails.by_class.is_empty());
}

#[test]
fn try_from_is_what_we_think() {
    // sanity: ExprString::try_from is the same reader as parse_all
    assert!(ExprString::try_from("a b".to_owned()).is_ok());
}

#[test]
fn literal_samples() {
    for src in [
        "1", "0", "0.0", "1.50", "1e9", "999999999", "1000000000", "1234567890", "1e-9", "1.1e-9", "0.000000001",
        "0.0000000011", "123456789.123456789", "0.1234567890123456789", "1e30", "1.5e300", "1e-300",
        "12345678901234567890123456789", "0x1F", "0o17", "0b101", ".5", "1ee3", "1E+5", "1e-0", "0e5", "1_000", "1e1000",
        "3.14159265358979323846", "0.30000000000000004", "99999999999.5", "1e9.5", "100000000000000000000.000001",
        "0.5e-9", "1.0e9", "1e+9", "0.000001", "5e-324",
    ] {
        let e = parse_all(src);
        match e {
            Ok(Expr::Const { ref value }) => {
                let (exact, text) = value.to_string(10, Digits::Default);
                let back = parse_all(&text);
                println!("{:>40} -> exact={} `{}` roundtrip={}", src, exact, text, back.as_ref().ok() == e.as_ref().ok());
            }
            other => println!("{:>40} -> {:?}", src, other.map(|x| x.to_string())),
        }
    }
}

mod lit {
    use num_bigint::BigInt;
    use num_rational::BigRational;
    use num_traits::{One, Zero};

    /// independent reader of a plain decimal literal `ddd[.ddd][e[+-]ddd]`
    pub fn read(text: &str) -> Option<BigRational> {
        let lower = text.to_ascii_lowercase();
        let (mant, exp) = match lower.find('e') {
            Some(i) => (&lower[..i], lower[i + 1..].parse::<i64>().ok()?),
            None => (&lower[..], 0),
        };
        let (int, frac) = match mant.find('.') {
            Some(i) => (&mant[..i], &mant[i + 1..]),
            None => (mant, ""),
        };
        if int.is_empty() && frac.is_empty() {
            return None;
        }
        if !int.chars().all(|c| c.is_ascii_digit()) || !frac.chars().all(|c| c.is_ascii_digit()) {
            return None;
        }
        let digits: String = format!("{}{}", int, frac);
        let n: BigInt = if digits.is_empty() { BigInt::zero() } else { digits.parse().ok()? };
        let mut v = BigRational::from_integer(n);
        let ten = BigRational::from_integer(BigInt::from(10));
        let e = exp - frac.len() as i64;
        let mut p = BigRational::one();
        for _ in 0..e.abs() {
            p = p * &ten;
        }
        if e >= 0 {
            v = v * p;
        } else {
            v = v / p;
        }
        Some(v)
    }
}

#[test]
fn literals_random() {
    let mut rng = Rng(0x1234_5678_9ABC_DEF1);
    let n: usize = std::env::var("C11_N").ok().and_then(|x| x.parse().ok()).unwrap_or(1_000_000);
    let mut checked = 0;
    let mut exact_count = 0;
    let mut fails = Failures::default();
    for _ in 0..n {
        let maxd = if rng.below(4) == 0 { 25 } else { 8 };
        let ndig = 1 + rng.below(maxd);
        let mut digits = String::new();
        for _ in 0..ndig {
            let d = match rng.below(4) {
                0 => 0,
                1 => 9,
                _ => rng.below(10),
            };
            digits.push(std::char::from_digit(d as u32, 10).unwrap());
        }
        let point = rng.below(ndig + 1);
        let mut src = String::new();
        src.push_str(&digits[..point]);
        if point < ndig {
            if point == 0 && rng.below(2) == 0 {
                src.push('0');
            }
            src.push('.');
            src.push_str(&digits[point..]);
        }
        match rng.below(3) {
            0 => {}
            _ => {
                let e = rng.below(41) as i64 - 20;
                src.push_str(&format!("e{}", e));
            }
        }
        let want = match lit::read(&src) {
            Some(v) => v,
            None => continue,
        };
        let e = match parse_all(&src) {
            Ok(e) => e,
            Err(_) => continue,
        };
        let value = match e {
            Expr::Const { ref value } => value.clone(),
            _ => continue,
        };
        checked += 1;
        // the parser itself must have read the literal correctly (independent check)
        let (n, d) = value.to_rational();
        let got = num_rational::BigRational::new(n.to_string().parse().unwrap(), d.to_string().parse().unwrap());
        if got != want {
            fails.record("parser misreads literal".into(), format!("`{}` read as {}", src, got));
            continue;
        }
        let (exact, text) = value.to_string(10, Digits::Default);
        if !exact {
            continue;
        }
        exact_count += 1;
        let printed = e.to_string();
        if printed != text {
            fails.record("display differs from to_string".into(), format!("{} vs {}", printed, text));
        }
        match lit::read(&printed) {
            Some(v) if v == want => {}
            Some(v) => fails.record(
                "exact literal prints a different value".into(),
                format!("`{}` printed `{}` = {}", src, printed, v),
            ),
            None => fails.record("printed literal unreadable".into(), format!("`{}` printed `{}`", src, printed)),
        }
        if parse_all(&printed).ok().as_ref() != Some(&e) {
            fails.record("literal does not reparse".into(), format!("`{}` printed `{}`", src, printed));
        }
        if reply_text(&e) != printed {
            fails.record("reply literal differs".into(), format!("`{}`", src));
        }
    }
    println!("literals: {} checked, {} exact", checked, exact_count);
    fails.report("literals");
    assert!(fails.by_class.is_empty());
}

#[test]
fn shipped_definitions() {
    let ctx = rink_core::simple_context().unwrap();
    let mut fails = Failures::default();
    let mut skipped = 0;
    for (name, e) in ctx.registry.definitions.iter() {
        if out_of_scope(e) {
            skipped += 1;
            continue;
        }
        check_all(name, e, &mut fails);
    }
    println!("definitions: {} skipped as out of scope", skipped);
    for (name, s) in ctx.registry.substances.iter() {
        let _ = (name, s);
    }
    fails.report("shipped definitions");
    assert!(fails.by_class.is_empty());
}

fn def_exprs(d: &rink_core::ast::DefEntry) -> Vec<(String, Expr)> {
    use rink_core::ast::Def;
    match *d.def {
        Def::Prefix { ref expr, .. } | Def::Unit { ref expr } | Def::Quantity { ref expr } => {
            vec![(d.name.clone(), expr.0.clone())]
        }
        Def::Substance { ref properties, .. } => properties
            .iter()
            .flat_map(|p| {
                vec![
                    (format!("{}.{}.input", d.name, p.name), p.input.0.clone()),
                    (format!("{}.{}.output", d.name, p.name), p.output.0.clone()),
                ]
            })
            .collect(),
        _ => vec![],
    }
}

#[test]
fn shipped_defs_json() {
    let mut fails = Failures::default();
    for file in [rink_core::DEFAULT_FILE.unwrap(), rink_core::CURRENCY_FILE.unwrap()] {
        let defs = rink_core::loader::gnu_units::parse_str(file);
        for a in defs.defs.iter() {
            let ea = def_exprs(a);
            let json = serde_json::to_string(a).unwrap();
            let b: rink_core::ast::DefEntry = match serde_json::from_str(&json) {
                Ok(b) => b,
                Err(err) => {
                    if ea.iter().all(|(_, x)| !out_of_scope(x)) {
                        fails.record(format!("defs json unreadable"), format!("{}: {} ({})", a.name, json, err));
                    } else {
                        println!("known-unreadable: {} {}", a.name, ea.iter().map(|x| x.1.to_string()).collect::<Vec<_>>().join(" ; "));
                    }
                    continue;
                }
            };
            let eb = def_exprs(&b);
            assert_eq!(ea.len(), eb.len());
            for ((name, x), (_, y)) in ea.iter().zip(eb.iter()) {
                if out_of_scope(x) {
                    continue;
                }
                fails.checked += 1;
                if x != y {
                    fails.record(format!("defs json {}", shape(x)), format!("{}: `{}` came back as `{}`", name, x, y));
                }
            }
        }
    }
    fails.report("shipped Defs through JSON");
    assert!(fails.by_class.is_empty());
}

#[test]
fn token_soup_adjacent() {
    const TOKS: &[&str] = &[
        "a", "b", "e", "E", "x", "_", "$", "1", "0", "2.5", ".", ".5", "1.", "(", ")", "(", ")", "+", "-", "*", "/", "|",
        "^", "**", "=", "<", ">", "<<", ">>", "mod", "and", "or", "xor", "per", "°C", "degF", "kelvin", "%", "of",
        "p", "sin", "hypot", ",", "int", "'q'", "1e3", "0x", "0b", "0o", "1F", "ln", "log", "atan2", "−", "∕",
        "/* c */", "imperial", "\\u3b1", "delisle", "°N", "°", "rømer", "degRe", "²", "½", "٣", "′", "units",
        "search", "factorize", "now", "\u{2009}", "\t", "e-", "e+", "ee", "1_0", "7", "9", ":", ";", "->", "→", "to",
        "in", "#", "!", "@", "~", "[", "]", "{", "}", "?", "&", "deg", "C", "K",
    ];
    let mut rng = Rng(0xFEEDFACE12345678);
    let mut fails = Failures::default();
    let n: usize = std::env::var("C11_N").ok().and_then(|x| x.parse().ok()).unwrap_or(1_000_000);
    for _ in 0..n * 4 {
        let len = 1 + rng.below(8);
        let mut src = String::new();
        for i in 0..len {
            if i > 0 && rng.below(3) != 0 {
                src.push(' ');
            }
            src.push_str(TOKS[rng.below(TOKS.len())]);
        }
        if let Ok(e) = parse_all(&src) {
            check_all(&src, &e, &mut fails);
        }
    }
    fails.report("token soup with adjacency");
    assert!(fails.by_class.is_empty());
}

/// FINDING 1: quote literals are printed without re-escaping.
#[test]
fn finding1_quote_escapes() {
    let mut bad = vec![];
    for src in ["'it\\'s'", "'a\\nb'", "'\\''", "'a\\tb'", "''", "'plain'"] {
        let e = parse_all(src).unwrap();
        assert!(!out_of_scope(&e));
        let printed = e.to_string();
        let back = parse_all(&printed);
        let ok = back.as_ref().ok() == Some(&e);
        println!("{:12} -> tree {:?} -> printed {:?} -> reparsed {:?}  same={}", src, e, printed, back.map(|x| x.to_string()), ok);
        let json = serde_json::to_string(&ExprString(e.clone())).unwrap();
        let de = serde_json::from_str::<ExprString>(&json);
        println!("             json {} -> {:?}", json, de.as_ref().map(|x| x.0.to_string()));
        if !ok || de.ok().map(|x| x.0) != Some(e.clone()) {
            bad.push(src);
        }
    }
    // user-visible: the echoed operand in the error message, and a shown definition
    let mut ctx = rink_core::simple_context().unwrap();
    println!("{:?}", rink_core::one_line(&mut ctx, "'it\\'s' = 3"));
    let defs: rink_core::ast::Defs =
        serde_json::from_str(r#"[{"name":"apostrophes","type":"unit","expr":"3 'it\\'s'","doc":null,"category":null}]"#).unwrap();
    ctx.load(defs).unwrap();
    println!("{:?}", rink_core::one_line(&mut ctx, "apostrophes"));
    assert!(bad.is_empty(), "quote literals that do not round trip: {:?}", bad);
}

/// FINDING 2 (borderline, `of` is an ordinary identifier for the lexer): a unit
/// called `of` after another factor.
#[test]
fn finding2_unit_named_of() {
    let mut bad = vec![];
    for src in ["of", "a * of", "a * of * b", "2 of", "a (of)", "-a * of", "a \"of\" b", "int ernational", "imperial itish", "aust ralian"] {
        let e = parse_all(src).unwrap();
        let printed = e.to_string();
        let back = parse_all(&printed);
        let ok = back.as_ref().ok() == Some(&e);
        println!("{:12} -> {:?}\n     printed {:?} -> reparsed {:?} same={}", src, e, printed, back.map(|x| x.to_string()), ok);
        if !ok {
            bad.push(src);
        }
    }
    assert!(bad.is_empty(), "do not round trip: {:?}", bad);
}

#[test]
fn aside_offsets() {
    let mut ctx = rink_core::simple_context().unwrap();
    for q in ["now -> hex +07:00", "now -> hex -05:30", "now -> hex -00:30", "1 -> digits 3 -05:30"] {
        println!("{:30} {:?}", q, rink_core::one_line(&mut ctx, q));
    }
}
