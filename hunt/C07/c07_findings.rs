// C07 hunt: one failing test per root cause. Each test asserts what the
// property requires; all of them fail on the current tree.
//
// run: CARGO_NET_OFFLINE=true cargo test --offline -p rink-core \
//        --features bundle-files --test c07_findings -- --nocapture
use rink_core::ast::Expr;
use rink_core::types::{BaseUnit, BigRat, Number, Numeric};
use rink_core::*;

fn load(files: &[&str]) -> Context {
    let mut ctx = Context::new();
    for f in files {
        let res = ctx.load_definitions(f);
        println!("load => {:?}", res);
    }
    ctx
}

fn num(n: i64, d: i64) -> Numeric {
    Numeric::Rational(BigRat::small_ratio(n, d))
}

fn unit(name: &str) -> Number {
    Number::one_unit(BaseUnit::new(name))
}

fn times(v: Numeric, u: &Number) -> Number {
    (&Number::new(v) * u).unwrap()
}

/// F1: the loader orders definitions with a resolver that takes a *short
/// prefix* (or quantity) of that name for an exact unit. The real reading
/// (prefix+unit) has then not been loaded when the definition is evaluated
/// and the evaluation silently falls through to the plural reading.
#[test]
fn f1_definition_evaluated_with_plural_instead_of_prefix_unit() {
    let ctx = load(&["k !\nk-- 1/10\nks-- 7\ns- 7\nx ks\n"]);
    // `ks` is not defined exactly (`ks--` is a short prefix, not a unit), so it
    // is prefix k (1/10) times unit s (7) = 0.7; the plural of `k` must not be considered.
    let ks = ctx.lookup("ks").unwrap();
    assert_eq!(ks, Number::new(num(7, 10)));
    // x is defined as `ks`, so it must denote the same value
    let x = ctx.lookup("x").unwrap();
    println!("ks = {:?}, x = {:?}", ks, x);
    assert_eq!(x, ks, "x is defined as `ks` but got the plural of base unit k");
}

/// F1, second face: same cause, the definition is refused altogether.
#[test]
fn f1b_valid_definition_refused() {
    let ctx = load(&["aa bs ss\nb !\ns !\nss-- 2\n"]);
    // `ss` = plural of s, `bs` = plural of b; both resolve after loading
    assert_eq!(ctx.lookup("ss"), Some(unit("s")));
    assert_eq!(ctx.lookup("bs"), Some(unit("b")));
    assert!(ctx.lookup("aa").is_some(), "aa = `bs ss` was refused: No such unit ss");
}

/// F1, third face: in a quantity definition the resolver never looks at base
/// units, so an exactly defined base unit loses to a prefix/plural reading that
/// leads back to the quantity: spurious dependency cycle.
#[test]
fn f1c_quantity_definition_prefers_plural_over_exact_base_unit() {
    let mut ctx = Context::new();
    let res = ctx.load_definitions("bs !\nb ? bs\n");
    println!("{:?}", res);
    assert!(res.is_ok(), "`b ? bs` names the base unit bs exactly, there is no cycle");
}

/// F2 (bundled database): a substance, or element symbol, that is defined
/// exactly loses to prefix+unit and even to the plural reading.
#[test]
fn f2_exact_substance_names_lose_to_prefix_and_plural() {
    let mut ctx = simple_context().unwrap();
    // definitions.units line 4712: `hg   Hg` (compat section), Hg = mercury
    let hg = ctx.eval(&Expr::new_unit("hg".into())).unwrap();
    println!("hg => {}", one_line(&mut ctx, "hg").unwrap());
    println!("density of hg => {:?}", one_line(&mut ctx, "density of hg"));
    println!("Cs => {}", one_line(&mut ctx, "Cs").unwrap());
    println!("molar_mass of Cs => {:?}", one_line(&mut ctx, "molar_mass of Cs"));
    println!("molar_mass of Mg => {:?}", one_line(&mut ctx, "molar_mass of Mg"));
    assert!(matches!(hg, Value::Substance(_)), "hg is defined as Hg (mercury), got hectogram");
    let cs = ctx.eval(&Expr::new_unit("Cs".into())).unwrap();
    assert!(matches!(cs, Value::Substance(_)), "Cs is the symbol of cesium, got coulomb via plural s");
}

/// F2, small database: the same name is the substance while loading and
/// prefix+unit afterwards.
#[test]
fn f2b_substance_name_changes_meaning_after_load() {
    let ctx = load(&["a !\na-- 10\naa {\n  p const q 3 a\n}\nx aa\n"]);
    let x = ctx.eval(&Expr::new_unit("x".into())).unwrap();
    let aa = ctx.eval(&Expr::new_unit("aa".into())).unwrap();
    println!("x = {:?}\naa = {:?}", x, aa);
    assert_eq!(format!("{:?}", x), format!("{:?}", aa), "x is defined as `aa`");
}

/// F3 (bundled database): `mass` is a quantity defined exactly, yet in an
/// expression it is read as the plural of `mas` (milliarcsecond).
#[test]
fn f3_quantity_name_read_as_plural() {
    let mut ctx = simple_context().unwrap();
    println!("mass => {}", one_line(&mut ctx, "mass").unwrap());
    println!("2 mass => {:?}", one_line(&mut ctx, "2 mass"));
    println!("kg -> mass => {:?}", one_line(&mut ctx, "kg -> mass"));
    println!("2 length => {:?}", one_line(&mut ctx, "2 length"));
    assert!(ctx.registry.quantities.values().any(|q| q == "mass"));
    let mas = ctx.lookup("mas").unwrap();
    assert_ne!(ctx.lookup("mass"), Some(mas), "`mass` must not be the plural of `mas`: the name matches the quantity");
}

/// F4: with two possible prefix splits the loader's resolver picks the
/// alphabetically first prefix, evaluation picks the first prefix in load
/// order: a definition is computed with one reading, queries use the other.
#[test]
fn f4_definition_and_query_use_different_prefix_splits() {
    let ctx = load(&["z !\naz 3\nb 7\nd-- 1/10\nda-- 10\nw dab\nx daz\n"]);
    let daz = ctx.lookup("daz").unwrap();
    let x = ctx.lookup("x").unwrap();
    println!("daz = {:?} ; x (defined as daz) = {:?}", daz, x);
    assert_eq!(x, daz);
}

/// F5: a prefix that is defined again by a file loaded later keeps its first
/// value when it is glued to a unit, but has the new value on its own (and
/// units defined again take the new value).
#[test]
fn f5_prefix_redefined_by_later_file() {
    let ctx = load(&["m !\nkilo- 1000\n", "kilo- 1024\n"]);
    let kilo = ctx.lookup("kilo").unwrap();
    let kilom = ctx.lookup("kilom").unwrap();
    println!("kilo = {:?} ; kilom = {:?} ; prefixes = {:?}", kilo, kilom, ctx.registry.prefixes.len());
    assert_eq!(kilom, (&kilo * &unit("m")).unwrap(), "kilo+m must be kilo's value times m");
}

/// F6: a unit with the name of a base unit's long name, defined *before* the
/// base unit: no warning, and the name denotes neither definition but a new
/// phantom base unit.
#[test]
fn f6_long_name_collision_creates_phantom_base_unit() {
    let mut ctx = Context::new();
    let res = ctx.load_definitions("meter 2 foot\nfoot !\nm !meter\n");
    println!("{:?} base units: {:?}", res, ctx.registry.base_units);
    let meter = ctx.lookup("meter").unwrap();
    println!("meter = {:?}", meter);
    let either = meter == unit("m") || meter == times(num(2, 1), &unit("foot"));
    assert!(either, "meter is neither 1 m nor 2 foot");
}
