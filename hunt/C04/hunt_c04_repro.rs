// Minimal reproductions for the C04 (totality) findings. Each test FAILS (or aborts the
// test binary) while the corresponding defect is present. See FINDINGS.md.
//
//   cargo test --offline -p rink-core --features bundle-files --test hunt_c04_repro -- --test-threads=1 <name>
//
use rink_core::parsing::text_query;
use rink_core::Context;
use std::panic::{catch_unwind, AssertUnwindSafe};

fn ctx() -> Context {
    let mut ctx = rink_core::simple_context().unwrap();
    ctx.save_previous_result = true;
    ctx
}

fn parse(q: &str) -> rink_core::ast::Query {
    let mut iter = text_query::TokenIterator::new(q.trim()).peekable();
    text_query::parse_query(&mut iter)
}

/// Evaluate on a thread with the stack of a main thread (8 MiB), all three renderings.
fn eval_on_main_sized_stack(lines: &'static [&'static str]) -> Vec<Result<String, String>> {
    std::thread::Builder::new()
        .stack_size(8 << 20)
        .spawn(move || {
            let mut ctx = ctx();
            lines
                .iter()
                .map(|line| {
                    catch_unwind(AssertUnwindSafe(|| {
                        let res = rink_core::eval(&mut ctx, line);
                        let _ = rink_core::output::fmt::TokenFmt::to_spans(&res);
                        match &res {
                            Ok(v) => {
                                serde_json::to_string(v).unwrap();
                                v.to_string()
                            }
                            Err(e) => {
                                serde_json::to_string(e).unwrap();
                                e.to_string()
                            }
                        }
                    }))
                    .map_err(|e| {
                        e.downcast_ref::<String>()
                            .cloned()
                            .or_else(|| e.downcast_ref::<&str>().map(|s| s.to_string()))
                            .unwrap_or_default()
                    })
                })
                .collect()
        })
        .unwrap()
        .join()
        .unwrap()
}

/// Finding 1. Aborts the whole process ("has overflowed its stack"), in release builds too.
#[test]
fn f1_factorize_overflows_an_8mib_stack() {
    let r = eval_on_main_sized_stack(&["factorize (m s kg A K mol cd bit)^2000", "1+1"]);
    assert_eq!(r[1].as_deref(), Ok("2 (dimensionless)"));
}

/// Finding 1, second spelling: no literal above 150.
#[test]
fn f1b_factorize_overflows_an_8mib_stack_small_literals() {
    let r = eval_on_main_sized_stack(&["factorize (m^150)^150", "1+1"]);
    assert_eq!(r[1].as_deref(), Ok("2 (dimensionless)"));
}

/// Finding 2. A time-only date literal with a named zone, on a day the zone changes offset.
#[test]
fn f2_time_only_literal_on_a_dst_day_panics() {
    use chrono::TimeZone;
    let mut ctx = ctx();
    let mut failures = vec![];
    for (y, m, d, q) in [
        (2026, 3, 8, "#02:30 America/New_York#"),
        (2026, 11, 1, "#01:30 America/New_York#"),
        (2026, 3, 29, "#01:30 Europe/London#"),
        (2026, 10, 25, "now - #01:30 Europe/London#"),
    ] {
        // the clock is set the way rink-js (`setTime`) and the upstream tests do it
        let now = chrono::Utc.with_ymd_and_hms(y, m, d, 12, 0, 0).unwrap();
        ctx.set_time(now.with_timezone(&chrono::Local));
        let query = parse(q);
        let r = catch_unwind(AssertUnwindSafe(|| match ctx.eval_query(&query) {
            Ok(v) => v.to_string(),
            Err(e) => e.to_string(),
        }));
        if r.is_err() {
            failures.push(format!("now={}-{:02}-{:02}: {}", y, m, d, q));
        }
    }
    assert!(failures.is_empty(), "panicked: {:#?}", failures);
}

/// Finding 3. rink-js does `serde_wasm_bindgen::to_value(&query).unwrap()` in `getExpr`;
/// the serde impl of the query refuses these.
#[test]
fn f3_parsed_query_cannot_be_serialised() {
    for q in ["now -> UTC", "#2016-01-01# -> \"Asia/Tokyo\"", "3 -> EST"] {
        let query = parse(q);
        let json = serde_json::to_string(&query);
        assert!(json.is_ok(), "{:?}: {:?}", q, json);
    }
}

/// Finding 4 (builds with overflow checks, i.e. the default `cargo test`/`cargo run`).
#[test]
fn f4_year_bc_overflow() {
    let r = eval_on_main_sized_stack(&["#jan 1, -2147483647 bc#", "#-2147483647 jan 1 bc#"]);
    for x in &r {
        assert!(x.is_ok(), "{:?}", x);
    }
}

/// Finding 5 (builds with overflow checks): a sequence of queries on one context.
#[test]
fn f5_ans_chain_overflows_unit_exponents() {
    let mut ctx = ctx();
    let mut out = vec![rink_core::one_line(&mut ctx, "(m s)^2147483647").is_ok()];
    for i in 0..33 {
        let r = catch_unwind(AssertUnwindSafe(|| rink_core::one_line(&mut ctx, "ans ans")));
        assert!(r.is_ok(), "`ans ans` number {} panicked", i + 1);
        out.push(true);
    }
}
