// Minimal reproductions for the C01 findings (see FINDINGS.md).
// Every test asserts what property C01 requires, so each one FAILS on the current code.
// Scratch file, keep uncommitted.

use rink_core::output::QueryReply;
use rink_core::types::Numeric;

/// Returns Ok(text of the number) when rink answers with a number, Err(message) otherwise.
fn ask(query: &str) -> Result<String, String> {
    let mut ctx = rink_core::simple_context().unwrap();
    match rink_core::eval(&mut ctx, query) {
        Ok(QueryReply::Number(parts)) => {
            let raw = parts.raw_value.clone().unwrap();
            let kind = match raw.value {
                Numeric::Rational(_) => "rational",
                Numeric::Float(_) => "float",
            };
            Ok(format!("{} [{}]", parts, kind))
        }
        Ok(other) => Ok(format!("{}", other)),
        Err(e) => Err(e.to_string()),
    }
}

fn must_be_error(query: &str) {
    let got = ask(query);
    println!("{:24} => {:?}", query, got);
    assert!(got.is_err(), "`{}` must be an error, got {:?}", query, got);
}

fn must_be(query: &str, want: &str) {
    let got = ask(query);
    println!("{:24} => {:?} (want {})", query, got, want);
    assert_eq!(got.as_ref().map(|s| s.as_str()), Ok(want), "`{}`", query);
}

/// F1: the parser stops at an unmatched `)` or a `,` and silently drops the rest of the query.
#[test]
fn f1_rest_of_query_after_stray_paren_or_comma_is_ignored() {
    let mut failures = vec![];
    for q in [
        "(1 + 2)) * 3",  // answers 3
        "1 + 2) * 3",    // answers 3
        "1,000 * 2",     // answers 1
        "1,5 + 1",       // answers 1
        "7 ) mod 0",     // answers 7 although the text contains a mod by zero
        "1 ) / 0",       // answers 1 although the text contains a division by zero
    ] {
        let got = ask(q);
        println!("{:24} => {:?}", q, got);
        if got.is_ok() {
            failures.push(format!("`{}` -> {:?}", q, got));
        }
    }
    assert!(failures.is_empty(), "numbers returned for malformed queries: {:#?}", failures);
}

/// F2: the manual says `/` has lower precedence than multiplication (and `mod` has the
/// precedence of `*`), the parser gives explicit `*`, `mod` and `/` one level, left to right.
#[test]
fn f2_slash_is_not_lower_than_explicit_multiplication() {
    // manual: 1 / (2 * 3)
    must_be("1 / 2 * 3", "0.1[6]... (dimensionless) [rational]");
}

#[test]
fn f2b_slash_is_not_lower_than_mod() {
    // manual: 12 / (4 mod 3) = 12
    must_be("12 / 4 mod 3", "12 (dimensionless) [rational]");
}

/// F3: zero to a negative (non-integer) power is answered with `approx. Inf`.
#[test]
fn f3_zero_to_negative_fractional_power_is_inf() {
    must_be_error("0^-0.5");
}

#[test]
fn f3b_zero_to_negative_fractional_power_is_inf() {
    must_be_error("0^(-3|2)");
}

/// F4: a doubled exponent marker is accepted.
#[test]
fn f4_double_exponent_marker() {
    must_be_error("1ee5");
}

#[test]
fn f4b_double_exponent_marker() {
    must_be_error("2.5Ee-1");
}

/// N1 (note, conventional reading only): unary minus binds tighter than `^`.
#[test]
fn n1_unary_minus_binds_tighter_than_power() {
    must_be("-2^2", "-4 (dimensionless) [rational]");
}
